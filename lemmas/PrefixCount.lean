/-
  The congruence lemma behind the axioms on esX / esY in /verif/spec/tree.spec.

  esX h s k is the number of entries among the first k entries of the edit script s (read in the
  element heap h) that consume an element of the old list. In the SMT encoding it is an uninterpreted
  function that the contracts unfold by its recursion

      esX h s 0       = 0
      esX h s (k + 1) = esX h s k + c (elem h s k)

  and the axiom says: two (heap, script) pairs whose first k entries agree have the same count up to k.
  Abstracting a (heap, script) pair to the sequence of its entries a : Nat → α, that is the statement
  `cnt_congr` below: any function defined by that recursion depends on the first k entries only.
  (Checked with `lean PrefixCount.lean`; no imports.)
-/

/-- the prefix count defined by the recursion the contracts unfold -/
def cnt {α : Type} (c : α → Nat) (a : Nat → α) : Nat → Nat
  | 0 => 0
  | k + 1 => cnt c a k + c (a k)

theorem cnt_congr {α : Type} (c : α → Nat) (a b : Nat → α) :
    ∀ k : Nat, (∀ i, i < k → a i = b i) → cnt c a k = cnt c b k := by
  intro k
  induction k with
  | zero => intro _; rfl
  | succ n ih =>
    intro h
    have h1 : cnt c a n = cnt c b n := ih (fun i hi => h i (Nat.lt_succ_of_lt hi))
    have h2 : a n = b n := h n (Nat.lt_succ_self n)
    simp [cnt, h1, h2]

/-- the counts never decrease and a prefix count plus the weight of the next entry is at most any later count
    (what `wfES` carries as an invariant; stated here for reference, the verifier proves it entry by entry) -/
theorem cnt_mono {α : Type} (c : α → Nat) (a : Nat → α) :
    ∀ k n : Nat, k < n → cnt c a k + c (a k) ≤ cnt c a n := by
  intro k n h
  induction n with
  | zero => exact absurd h (Nat.not_lt_zero k)
  | succ m ih =>
    cases Nat.lt_succ_iff_lt_or_eq.mp h with
    | inl hlt =>
      have := ih hlt
      simp [cnt]
      omega
    | inr heq =>
      subst heq
      simp [cnt]
