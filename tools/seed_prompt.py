import json,sys
pid=sys.argv[1]; name=sys.argv[2]
props={json.loads(l)['id']:json.loads(l) for l in open('/verif/properties.jsonl')}
p=props[pid]
print(f"""You are helping to test how well a project's safeguards detect regressions. The project is uber-go/gopatch, a Go refactoring tool (it parses a unified-diff-style patch language with metavariables and '...' elision and rewrites Go files). You have your own scratch git worktree of it at {name and '/tmp/seedwt/'+name}. Work ONLY inside that worktree and inside the output directory /tmp/seedout/{name}. Do not read, list or touch /verif or /repo or any other directory under /tmp/seedwt or /tmp/seedout. There is no network. Before every go command run: export GOFLAGS=-mod=mod GOPROXY=off GOSUMDB=off GOTOOLCHAIN=local

The property the tool is supposed to have:

  {p['title']}
  {p['statement']}

Your task: write TWO independent changes (call them A and B, touching different functions, preferably different files) to gopatch's non-test Go source, each of which BREAKS this property while
  (1) `go build ./...` still succeeds, and
  (2) the complete existing test suite `go test -vet=off -count=1 ./...` still passes with no test edited.
Each change should look like something a maintainer could plausibly commit (a refactoring slip, an optimisation, a wrong boundary, an inverted or dropped condition, a misplaced statement, state shared where it should be fresh, an error swallowed) - not sabotage with obviously hostile code. Most importantly, each change must need something SPECIFIC to manifest: an unusual input, a particular flag combination, a multi-step sequence of operations, a fault at a particular point, a particular interleaving, or two cooperating sites that each look fine alone. Changes that ordinary use (or the existing tests) would expose at once are not wanted. Read the relevant source first so the change is targeted and subtle.

For each change X in {{A, B}} produce in /tmp/seedout/{name}/X/:
  - patch.diff : `git diff` of the worktree with only that change applied (source files only; no test files).
  - a demonstration: a Go test file zz_seed_demo_test.go (test function names starting with TestZZSeed) and/or a small program, plus demo.sh.  `demo.sh <path-to-a-gopatch-checkout>` copies the test file into the right package directory of that checkout, runs it, removes it again, and exits 0 if the property demonstration passes and non-zero if it fails. It must set the GOFLAGS/GOPROXY/GOSUMDB/GOTOOLCHAIN variables above itself, must pass (exit 0) on the unchanged tree and fail (non-zero) on the tree with the change applied.
  - meta.json : {{"property": "{pid}", "summary": what was changed, "mechanism": why it breaks the property, "needs": what specific input / flags / sequence / fault is needed for it to show, "files_changed": [...]}}

Verify everything yourself before finishing, for each change separately: demo.sh passes on the clean worktree; `git apply patch.diff`; `go build ./...` and the full `go test -vet=off -count=1 ./...` pass; demo.sh now fails; then `git checkout -- .` and make sure no stray files remain (git status clean). If a change turns out to be caught by the existing tests, or you cannot make the demo fail, find a different change. When finished, reply with a short report: for A and B, the file/function changed, one sentence on the mechanism, and the verification results you observed.""")
