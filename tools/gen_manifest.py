#!/usr/bin/env python3
"""Generates /verif/MANIFEST.json from /verif/props.json and /verif/manifest_meta.json."""
import json, subprocess, os

V = "/verif"
props = json.load(open(f"{V}/props.json"))
meta = json.load(open(f"{V}/manifest_meta.json"))
allprops = [json.loads(l) for l in open(f"{V}/properties.jsonl")]

hook_commits = subprocess.run(
    ["git", "-C", "/repo", "log", "--format=%H %s"], capture_output=True, text=True
).stdout.strip().split("\n")
src_commits = [l.split()[0] for l in hook_commits if " verif:" in l or l.split(" ", 1)[1].startswith("verif")]

checks = []
for p in allprops:
    pid = p["id"]
    if pid not in props:
        continue
    m = meta["checks"].get(pid, {})
    checks.append({
        "property_id": pid,
        "quick_cmd": f"./bin/gvc check {pid} --tier quick",
        "thorough_cmd": f"./bin/gvc check {pid} --tier thorough",
        "evidence_file": f"evidence/{pid}.json",
        "replay_cmd_template": "./bin/gvc replay {path}",
        "engine": "gvc",
        "level_claimed": {
            "category": props[pid].get("level", "proof"),
            "text": m.get("text", props[pid].get("notes", "")),
            "design_ref": m.get("design_ref", "DESIGN.md §4 " + pid),
        },
        "level_note": m.get("level_note", "; ".join(props[pid].get("assumptions", [])) or "see evidence assumptions"),
        "technique": m.get("technique", "contract-based deductive verification: VCs generated from go/ssa of the real code, discharged by z3/cvc5"),
    })

na = []
for p in allprops:
    if p["id"] not in props:
        na.append({"property_id": p["id"], "reason": meta["not_applicable"].get(p["id"], "not yet under contract in this build (no obligations generated); see DESIGN.md")})

man = {
    "version": 1,
    "setup_cmd": "./build.sh",
    "hooks": {
        "guard": "verif",
        "enable": "go build tag `verif`: gvc loads /repo with -tags=verif; the guarded files (contracts_verif.go per package) contain only //@ contract comments and declare nothing",
        "baseline_off_cmd": "cd /repo && GOFLAGS=-mod=mod GOPROXY=off GOSUMDB=off go build ./... && GOFLAGS=-mod=mod GOPROXY=off GOSUMDB=off go test -json -vet=off -count=1 ./...",
        "source_commits": src_commits,
        "add_only": True,
    },
    "engines": [{
        "name": "gvc",
        "path": "gvc/",
        "serves_properties": [c["property_id"] for c in checks],
        "kind_free_text": "self-built deductive verifier for Go: go/packages + go/ssa (x/tools v0.29.0) -> weakest-precondition style VCs in SMT-LIB (mathematical ints, Burstall heap per struct field / element type, loops cut at invariants, calls by contract) -> z3 5.1 / z3 4.8.12 / cvc5 1.0.3",
    }],
    "checks": checks,
    "not_applicable": na,
    "notes": meta.get("notes", ""),
}
json.dump(man, open(f"{V}/MANIFEST.json", "w"), indent=1)
print("MANIFEST.json:", len(checks), "checks,", len(na), "not_applicable")
