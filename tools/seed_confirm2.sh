#!/bin/sh
# seed_confirm2.sh <src-dir> <name>
# Confirms a seeded property-breaking change independently in a scratch worktree
# of /repo's base commit: demo passes on the clean tree, patch applies, builds,
# the whole existing suite passes with it, demo fails with it. On success the
# change is stored as /verif/seeded/<name>/ (patch.diff, demo files, meta.json).
set -u
SRC="$1"; NAME="$2"
BASE=$(git -C /repo rev-parse --short HEAD)
export GOFLAGS=-mod=mod GOPROXY=off GOSUMDB=off GOTOOLCHAIN=local
WT=/tmp/confirm_$NAME
rm -rf "$WT"; git -C /repo worktree prune
git -C /repo worktree add --detach "$WT" "$BASE" -q || exit 2
cleanup() { git -C /repo worktree remove --force "$WT" 2>/dev/null; rm -rf "$WT"; }
trap cleanup EXIT
log=/tmp/confirm_$NAME.log; : > "$log"
step() { echo "== $*" >> "$log"; }
step "demo on clean tree"
sh "$SRC/demo.sh" "$WT" >> "$log" 2>&1; r1=$?
git -C "$WT" status --porcelain >> "$log"
step "apply"
git -C "$WT" apply "$SRC/patch.diff" >> "$log" 2>&1 || { echo "$NAME: patch does not apply"; exit 1; }
step "build+suite"
(cd "$WT" && go build ./... && go test -vet=off -count=1 ./...) >> "$log" 2>&1; r2=$?
step "demo with change"
sh "$SRC/demo.sh" "$WT" >> "$log" 2>&1; r3=$?
echo "$NAME: demo_clean=$r1 suite_with_change=$r2 demo_with_change=$r3"
if [ $r1 -eq 0 ] && [ $r2 -eq 0 ] && [ $r3 -ne 0 ]; then
  mkdir -p /verif/seeded/$NAME
  cp -r "$SRC"/. /verif/seeded/$NAME/
  rm -f /verif/seeded/$NAME/*.log
  python3 - "$NAME" "$BASE" <<'EOF'
import json,sys
name,base=sys.argv[1],sys.argv[2]
p=f"/verif/seeded/{name}/meta.json"
try: m=json.load(open(p))
except Exception: m={}
m["confirmed_by_me"]={"base_commit":base,"ran":["demo.sh on clean worktree -> exit 0","git apply patch.diff","go build ./... && go test -vet=off -count=1 ./... -> pass","demo.sh with change -> non-zero"],"script":"/verif/tools/seed_confirm2.sh"}
json.dump(m,open(p,"w"),indent=1)
EOF
  exit 0
fi
exit 1
