import json,sys,glob,os
pid=sys.argv[1]; name=sys.argv[2]
props={json.loads(l)['id']:json.loads(l) for l in open('/verif/properties.jsonl')}
p=props[pid]
used=[]
for d in sorted(glob.glob(f'/verif/seeded/{pid}-*')):
    try:
        m=json.load(open(d+'/meta.json'))
        s=m.get('summary','')
        if isinstance(s,dict): s=json.dumps(s)
        used.append('   - '+', '.join(m.get('files_changed',[]))+': '+s[:220].replace('\n',' '))
    except Exception as e: pass
base=open('/verif/tools/seed_prompt.py').read()
# reuse the text of the round-2 prompt by importing its print body
import subprocess
txt=subprocess.run(['python3','/verif/tools/seed_prompt.py',pid,name],capture_output=True,text=True).stdout
extra="\n\nEarlier volunteers already produced the following changes for this property. Do NOT repeat them or close variants of them; pick different functions and, where you can, different files and a different mechanism (other parts of the pipeline that the property also depends on are welcome: patch parsing, compilation of the patch, matching, replacing, comment/position handling, import handling, the command-line driver, the library API):\n"+'\n'.join(used)+"\n"
marker="For each change X in {A, B} produce"
txt=txt.replace(marker, extra.strip('\n')+"\n\n"+marker)
print(txt)
