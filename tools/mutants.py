#!/usr/bin/env python3
"""mutants.py [name-substring ...]

Hand-written must-fail corpus (/verif/selftest/mutants.json): each entry replaces one
source fragment of /repo in a scratch copy (never in /repo), checks that the copy still
builds, runs the listed property checks against the copy and demands exit 1 with a
VIOLATION line (optionally naming an expected obligation). Prints one line per mutant;
exit 1 if any mutant survives. Scratch copies live under /tmp and are removed.
"""
import json, os, shutil, subprocess, sys, concurrent.futures as cf

ENV = dict(os.environ, GOFLAGS="-mod=mod", GOPROXY="off", GOSUMDB="off", GOTOOLCHAIN="local")
VERIF = os.path.dirname(os.path.dirname(os.path.abspath(__file__)))


def run_one(m):
    name = m["name"]
    s = f"/tmp/hmut_{name}"
    shutil.rmtree(s, ignore_errors=True)
    os.makedirs(s)
    try:
        subprocess.run(["rsync", "-a", "--exclude", ".git", "/repo/", s + "/repo/"], check=True)
        p = os.path.join(s, "repo", m["file"])
        src = open(p).read()
        if src.count(m["old"]) != 1:
            return name, "STALE", f"fragment occurs {src.count(m['old'])} times in {m['file']}"
        open(p, "w").write(src.replace(m["old"], m["new"]))
        b = subprocess.run(["go", "build", "./..."], cwd=s + "/repo", env=ENV, capture_output=True, text=True)
        if b.returncode != 0:
            return name, "NOBUILD", b.stderr[-300:]
        if m.get("suite"):
            t = subprocess.run(["go", "test", "-vet=off", "-count=1", "./..."], cwd=s + "/repo", env=ENV, capture_output=True, text=True)
            if t.returncode != 0:
                return name, "SUITE-FAILS", t.stdout[-300:]
        res = []
        ok = True
        for prop in m["props"]:
            e = dict(ENV, GVC_REPO=s + "/repo", GVC_OUT=s + "/out")
            r = subprocess.run([os.path.join(VERIF, "bin/gvc"), "check", prop], env=e, capture_output=True, text=True)
            viol = [l for l in r.stdout.splitlines() if l.startswith("VIOLATION")]
            hit = r.returncode == 1 and viol
            if hit and m.get("expect"):
                hit = any(m["expect"] in v for v in viol)
            ok = ok and bool(hit)
            first = viol[0].split("obligation=")[-1][:160] if viol else ""
            res.append(f"{prop}: exit={r.returncode} violations={len(viol)} {first}")
        return name, "KILLED" if ok else "SURVIVED", " | ".join(res)
    finally:
        shutil.rmtree(s, ignore_errors=True)


def main():
    ms = json.load(open(os.path.join(VERIF, "selftest/mutants.json")))
    pats = sys.argv[1:]
    if pats:
        ms = [m for m in ms if any(p in m["name"] for p in pats)]
    bad = 0
    with cf.ThreadPoolExecutor(max_workers=4) as ex:
        for name, verdict, detail in ex.map(run_one, ms):
            print(f"{verdict:10s} {name}: {detail}")
            if verdict != "KILLED":
                bad += 1
    print(f"{len(ms) - bad}/{len(ms)} mutants killed")
    sys.exit(1 if bad else 0)


if __name__ == "__main__":
    main()
