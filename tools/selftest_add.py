#!/usr/bin/env python3
"""selftest_add.py <property> <seed-name>...: registers detected seeded changes in the must-fail corpus."""
import json,sys
p='/verif/selftest.json'
d=json.load(open(p))
pid=sys.argv[1]
for n in sys.argv[2:]:
    if n not in d.setdefault(pid,[]): d[pid].append(n)
json.dump(d,open(p,'w'),indent=1)
