#!/bin/sh
# seed_wt.sh <name>: creates /tmp/seedwt/<name>, a detached worktree of /repo HEAD with the
# contract files (contracts_verif.go) hidden (skip-worktree + removed), and /tmp/seedout/<name>.
# The worktree is what a seeding sub-agent gets: the code as it runs, nothing of the verification.
set -e
N="$1"
WT=/tmp/seedwt/$N
mkdir -p /tmp/seedwt /tmp/seedout/$N
git -C /repo worktree prune
[ -d "$WT" ] && git -C /repo worktree remove --force "$WT"
git -C /repo worktree add --detach "$WT" HEAD -q
cd "$WT"
for f in $(git ls-files | grep 'contracts_verif.go$'); do
  git update-index --skip-worktree "$f"; rm -f "$f"
done
git status --porcelain | head
echo "$WT ready"
