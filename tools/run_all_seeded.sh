#!/bin/sh
# Runs every seeded change against the check of the property it was written to break.
cd /verif
for d in seeded/C*-*; do
  n=$(basename $d); p=${n%%-*}
  if grep -q "\"property_id\": \"$p\"" MANIFEST.json; then
    MAXV=1 tools/run_seeded.sh $n $p 2>&1 | cut -c1-260
  else
    echo "$n $p (property not claimed)"
  fi
done
