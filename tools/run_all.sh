#!/bin/sh
# run_all.sh [tier]: runs every registered check against /repo, 4 at a time; prints one summary line each.
TIER=${1:-quick}
cd /verif
export GOFLAGS=-mod=mod GOPROXY=off GOSUMDB=off GOTOOLCHAIN=local
mkdir -p out/logs
jq -r '.checks[].property_id' MANIFEST.json | xargs -P 4 -I{} sh -c './bin/gvc check {} --tier '"$TIER"' > out/logs/{}.log 2>&1; echo "{} exit=$? $(tail -1 out/logs/{}.log)"; grep -h "^VIOLATION\|^SELFTEST" out/logs/{}.log | cut -c1-300'
