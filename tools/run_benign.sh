#!/bin/sh
# run_benign.sh <name> <patch.diff>: applies a behaviour-preserving edit to a scratch copy of /repo and runs
# every quick check against it: any VIOLATION is a false alarm of the machinery. Prints one line per alarm.
NAME="$1"; PATCH="$2"
S=/tmp/benign_$NAME
rm -rf "$S"; mkdir -p "$S"
rsync -a --exclude .git /repo/ "$S/repo/"
if ! (cd "$S/repo" && patch -p1 -s --no-backup-if-mismatch < "$PATCH"); then
  echo "$NAME: PATCH-DOES-NOT-APPLY"; rm -rf "$S"; exit 3
fi
n=0
for P in C01 C02 C03 C04 C05 C06 C07 C08 C09 C10 C11 C12 C13 C14 C15 C16 C17 C18 C19; do
  out=$(GVC_REPO="$S/repo" GVC_OUT="$S/out" GVC_NO_REPLAY=1 /verif/bin/gvc check "$P" 2>&1)
  r=$?
  if [ $r -ne 0 ]; then
    n=$((n+1))
    echo "$NAME $P exit=$r"
    echo "$out" | grep '^VIOLATION' | sed 's/replay=[^ ]* //' | cut -c1-300 | head -${MAXV:-3}
  fi
done
[ $n -eq 0 ] && echo "$NAME: quiet (19 checks)"
rm -rf "$S"
