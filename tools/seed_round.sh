#!/bin/sh
# seed_round.sh <Cxx> <outdir-suffix> <letterA> <letterB>
# Confirms /tmp/seedout/<Cxx>-<suffix>/{A,B} as seeds <Cxx>-<letterA>/<letterB>, then runs the property's check on each.
P="$1"; SFX="$2"; LA="$3"; LB="$4"
for pair in "A:$LA" "B:$LB"; do
  src=${pair%%:*}; l=${pair##*:}
  d=/tmp/seedout/$P-$SFX/$src
  [ -d "$d" ] || { echo "$P-$l: no output dir"; continue; }
  if /verif/tools/seed_confirm2.sh "$d" "$P-$l"; then
    /verif/tools/run_seeded.sh "$P-$l" "$P"
  fi
done
