#!/bin/sh
# run_seeded.sh <seed-name> <property>...
# Applies /verif/seeded/<seed-name>/patch.diff to a scratch copy of /repo (HEAD of
# /repo incl. contract files and fixes), runs the given checks against the copy,
# and removes the copy. Evidence/out of these runs go to a scratch dir.
NAME="$1"; shift
S=/tmp/mut_$NAME
rm -rf "$S"; mkdir -p "$S"
rsync -a --exclude .git /repo/ "$S/repo/"
if ! (cd "$S/repo" && patch -p1 -s --no-backup-if-mismatch < /verif/seeded/$NAME/patch.diff); then
  echo "$NAME: PATCH-DOES-NOT-APPLY"; rm -rf "$S"; exit 3
fi
rc=0
for P in "$@"; do
  out=$(GVC_REPO="$S/repo" GVC_OUT="$S/out" /verif/bin/gvc check "$P" 2>&1)
  r=$?
  nv=$(echo "$out" | grep -c '^VIOLATION')
  echo "$NAME $P exit=$r violations=$nv"
  echo "$out" | grep '^VIOLATION' | sed 's/replay=[^ ]* //' | cut -c1-260 | head -${MAXV:-4}
  [ $r -ne 0 ] && rc=1
done
rm -rf "$S"
exit $rc
