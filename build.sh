#!/bin/sh
# Builds the gvc verifier offline from the sources in /verif/gvc.
set -e
cd "$(dirname "$0")/gvc"
export GOFLAGS=-mod=mod GOPROXY=off GOSUMDB=off GOTOOLCHAIN=local
mkdir -p ../bin
go build -o ../bin/gvc ./cmd/gvc
