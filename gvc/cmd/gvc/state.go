package main

import (
	"fmt"
	"go/types"
	"strings"
)

// TV is a typed SMT term.
type TV struct {
	T string     // SMT term
	S string     // SMT sort
	G types.Type // Go type, nil for spec-level values
	L *Loc       // for pointer values: the location they designate (nil = generic ref)
}

// Query accumulates, in program order, the declarations and background facts of
// one function's verification conditions. Obligation k is checked against
// items[:k.n] only (assert-then-assume; nothing emitted later can mask it).
type Query struct {
	items []string
	obls  []*Obligation
	names map[string]int
	nsym  int
	skip  map[int]bool // items left out when an obligation is rendered: facts of obligations the running check does not claim
}

type Obligation struct {
	Fn     string   `json:"fn"`
	Name   string   `json:"name"`
	Kind   string   `json:"kind"`
	Guard  string   `json:"-"`
	Goal   string   `json:"-"`
	Desc   string   `json:"desc"`
	Pos    string   `json:"pos"`
	Tags   []string `json:"tags,omitempty"`
	n      int
	Cover  bool `json:"cover,omitempty"` // must be SAT (vacuity guard)
	Known  bool `json:"known,omitempty"` // the known-finding case itself: expected NOT to be provable
	Assume bool `json:"-"`               // do not add as a fact afterwards
	Uninterpretable string `json:"uninterpretable,omitempty"` // the clause could not be translated at this site (goal is false)
	assumeIdx int // index in Query.items of the fact this obligation becomes for later ones (-1: none)
}

func newQuery() *Query { return &Query{names: map[string]int{}} }

func (q *Query) fresh(base, sort string) string {
	base = sanitize(base)
	q.names[base]++
	n := fmt.Sprintf("%s_%d", base, q.names[base])
	q.items = append(q.items, fmt.Sprintf("(declare-const %s %s)", n, sort))
	return n
}

func (q *Query) declare(name, sort string) {
	q.items = append(q.items, fmt.Sprintf("(declare-const %s %s)", name, sort))
}

func (q *Query) assume(f string) {
	if f == "true" || f == "" {
		return
	}
	q.items = append(q.items, "(assert "+f+")")
}

func (q *Query) define(base, sort, term string) string {
	n := q.fresh(base, sort)
	q.assume("(= " + n + " " + term + ")")
	return n
}

// State is a lazily materialised heap snapshot: heap name -> SMT term.
type State struct {
	id      int
	h       map[string]string
	parents []stEdge
	fc      *FuncCtx
}

type stEdge struct {
	cond string
	st   *State
}

func (fc *FuncCtx) newState(parents ...stEdge) *State {
	fc.nstate++
	return &State{id: fc.nstate, h: map[string]string{}, parents: parents, fc: fc}
}

func (s *State) clone() *State {
	n := s.fc.newState(stEdge{"true", s})
	return n
}

func heapSym(name string) string { return sanitize(name) }

func (s *State) get(name string) string {
	if t, ok := s.h[name]; ok {
		return t
	}
	sort := s.fc.eng.heapSort(name)
	var t string
	switch len(s.parents) {
	case 0:
		t = fmt.Sprintf("%s_s%d", heapSym(name), s.id)
		s.fc.q.declare(t, sort)
		s.fc.heapInit(s, name, t)
	case 1:
		t = s.parents[0].st.get(name)
	default:
		vals := make([]string, len(s.parents))
		same := true
		for i, p := range s.parents {
			vals[i] = p.st.get(name)
			if vals[i] != vals[0] {
				same = false
			}
		}
		if same {
			t = vals[0]
		} else {
			term := vals[len(vals)-1]
			for i := len(vals) - 2; i >= 0; i-- {
				term = fmt.Sprintf("(ite %s %s %s)", s.parents[i].cond, vals[i], term)
			}
			t = s.fc.q.define(heapSym(name)+"_m", sort, term)
		}
	}
	s.h[name] = t
	return t
}

func (s *State) set(name, term string) {
	sort := s.fc.eng.heapSort(name)
	s.h[name] = s.fc.q.define(heapSym(name), sort, term)
}

func (s *State) havoc(name string) string {
	sort := s.fc.eng.heapSort(name)
	t := s.fc.q.fresh(heapSym(name)+"_h", sort)
	s.h[name] = t
	return t
}

// havocAll returns a state in which every heap is unconstrained.
func (fc *FuncCtx) havocAllState(keep *State, keepNames []string) *State {
	n := fc.newState()
	for _, k := range keepNames {
		n.h[k] = keep.get(k)
	}
	return n
}

// ---- locations -----------------------------------------------------------------

type locKind int

const (
	locCell  locKind = iota // C.<sort>[ref]
	locField                // F.<S>.<f>[ref]
	locElem                 // E.<sort>[ref][idx]
	locObj                  // whole struct object at ref (all field heaps)
	locGhost                // G.<name>
	locMapV                 // map value (not addressable in Go; used for assigns)
)

type pathStep struct {
	info *structInfo
	idx  int
}

type Loc struct {
	kind locKind
	heap string
	ref  string
	idx  string
	path []pathStep
	gt   types.Type // type of the content
	sl   string     // for elements addressed through a slice value: the slice term ...
	si   string     // ... and the index into it (loads then use elem_X for clean triggers)
}

func (e *Engine) heapSort(name string) string {
	if s, ok := e.heaps[name]; ok {
		return s
	}
	panic("unknown heap " + name)
}

func (e *Engine) regHeap(name, sort string) string {
	if old, ok := e.heaps[name]; ok && old != sort {
		panic(fmt.Sprintf("heap %s: sort %s vs %s", name, old, sort))
	}
	e.heaps[name] = sort
	return name
}

// heapTypeName: heaps are partitioned by Go type identity (two pointers or
// slices of different element types cannot alias in safe Go).
func heapTypeName(t types.Type) string {
	t = types.Unalias(t)
	if b, ok := t.(*types.Basic); ok {
		switch b.Kind() {
		case types.Uint8:
			return "uint8"
		case types.Int32:
			return "int32"
		}
	}
	return shortTypeName(t)
}

func (e *Engine) cellHeap(t types.Type) string {
	so := e.sorts.sortOf(t)
	return e.regHeap("C."+heapTypeName(t), "(Array Int "+so+")")
}

func (e *Engine) elemHeap(t types.Type) string {
	so := e.sorts.sortOf(t)
	return e.regHeap("E."+heapTypeName(t), "(Array Int (Array Int "+so+"))")
}

func (e *Engine) byteHeap() string { return e.elemHeap(types.Typ[types.Uint8]) }

func (e *Engine) fieldHeap(info *structInfo, i int) string {
	return e.regHeap("F."+info.sort+"."+info.st.Field(i).Name(), "(Array Int "+info.fsorts[i]+")")
}

func (e *Engine) mapHeaps(m *types.Map) (has, val string) {
	ks, vs := e.sorts.sortOf(m.Key()), e.sorts.sortOf(m.Elem())
	has = e.regHeap("MH."+ks+"."+vs, "(Array Int (Array "+ks+" Bool))")
	val = e.regHeap("MV."+ks+"."+vs, "(Array Int (Array "+ks+" "+vs+"))")
	return
}

// derefLoc: the location a pointer value of Go type *T with term ref designates.
func (e *Engine) derefLoc(ref string, elem types.Type) *Loc {
	if info := e.sorts.structInfoOf(elem); info != nil {
		return &Loc{kind: locObj, ref: ref, gt: elem}
	}
	if a, ok := elem.Underlying().(*types.Array); ok {
		// pointer to array: the array lives in the element heap
		return &Loc{kind: locCell, heap: e.elemHeap(a.Elem()), ref: ref, gt: elem}
	}
	return &Loc{kind: locCell, heap: e.cellHeap(elem), ref: ref, gt: elem}
}

func (fc *FuncCtx) loadLoc(l *Loc, st *State) string {
	e := fc.eng
	var base string
	switch l.kind {
	case locGhost:
		base = st.get(l.heap)
	case locCell, locField:
		base = fmt.Sprintf("(select %s %s)", st.get(l.heap), l.ref)
	case locElem:
		if l.sl != "" {
			base = fmt.Sprintf("(%s %s %s %s)", e.elemFn(arrayElemSort(arrayElemSort(e.heapSort(l.heap)))), st.get(l.heap), l.sl, l.si)
		} else {
			base = fmt.Sprintf("(select (select %s %s) %s)", st.get(l.heap), l.ref, l.idx)
		}
	case locObj:
		info := e.sorts.structInfoOf(l.gt)
		if info.st.NumFields() == 0 {
			return "mk-" + info.sort
		}
		var parts []string
		for i := range info.fields {
			parts = append(parts, fmt.Sprintf("(select %s %s)", st.get(e.fieldHeap(info, i)), l.ref))
		}
		base = "(mk-" + info.sort + " " + strings.Join(parts, " ") + ")"
	}
	for _, p := range l.path {
		base = fmt.Sprintf("(%s %s)", p.info.fields[p.idx], base)
	}
	return base
}

// rebuild returns the value of the root location with the path-designated part
// replaced by v.
func rebuildPath(cur string, path []pathStep, v string) string {
	if len(path) == 0 {
		return v
	}
	p := path[0]
	inner := rebuildPath(fmt.Sprintf("(%s %s)", p.info.fields[p.idx], cur), path[1:], v)
	var parts []string
	for i, f := range p.info.fields {
		if i == p.idx {
			parts = append(parts, inner)
		} else {
			parts = append(parts, fmt.Sprintf("(%s %s)", f, cur))
		}
	}
	return "(mk-" + p.info.sort + " " + strings.Join(parts, " ") + ")"
}

func (fc *FuncCtx) storeLoc(l *Loc, st *State, v string) {
	e := fc.eng
	switch l.kind {
	case locGhost:
		st.set(l.heap, v)
	case locCell, locField:
		h := st.get(l.heap)
		nv := v
		if len(l.path) > 0 {
			nv = rebuildPath(fmt.Sprintf("(select %s %s)", h, l.ref), l.path, v)
		}
		st.set(l.heap, fmt.Sprintf("(store %s %s %s)", h, l.ref, nv))
	case locElem:
		h := st.get(l.heap)
		nv := v
		if len(l.path) > 0 {
			nv = rebuildPath(fmt.Sprintf("(select (select %s %s) %s)", h, l.ref, l.idx), l.path, v)
		}
		st.set(l.heap, fmt.Sprintf("(store %s %s (store (select %s %s) %s %s))", h, l.ref, h, l.ref, l.idx, nv))
		fc.elemFrame(l.heap, h, st.get(l.heap), l.ref)
		if l.sl != "" {
			// the same update in the elem_X vocabulary (frame for the other elements of this slice)
			ef := e.elemFn(arrayElemSort(arrayElemSort(e.heapSort(l.heap))))
			nh := st.get(l.heap)
			fc.q.assume(fmt.Sprintf("(= (%s %s %s %s) %s)", ef, nh, l.sl, l.si, nv))
			fc.q.assume(fmt.Sprintf("(forall ((k Int)) (! (=> (not (= k %s)) (= (%s %s %s k) (%s %s %s k))) :pattern ((%s %s %s k))))", l.si, ef, nh, l.sl, ef, h, l.sl, ef, nh, l.sl))
		}
	case locObj:
		info := e.sorts.structInfoOf(l.gt)
		if len(l.path) > 0 {
			// store into a sub-part of the object: only the first step's field heap changes
			p := l.path[0]
			hn := e.fieldHeap(info, p.idx)
			h := st.get(hn)
			nv := rebuildPath(fmt.Sprintf("(select %s %s)", h, l.ref), l.path[1:], v)
			st.set(hn, fmt.Sprintf("(store %s %s %s)", h, l.ref, nv))
			return
		}
		for i := range info.fields {
			hn := e.fieldHeap(info, i)
			st.set(hn, fmt.Sprintf("(store %s %s (%s %s))", st.get(hn), l.ref, info.fields[i], v))
		}
	}
}

// heapsOf lists the heap names a location lives in.
func (fc *FuncCtx) heapsOf(l *Loc) []string {
	switch l.kind {
	case locObj:
		info := fc.eng.sorts.structInfoOf(l.gt)
		if len(l.path) > 0 {
			return []string{fc.eng.fieldHeap(info, l.path[0].idx)}
		}
		var out []string
		for i := range info.fields {
			out = append(out, fc.eng.fieldHeap(info, i))
		}
		return out
	}
	return []string{l.heap}
}

// fieldOf: location of field i of the struct at location l.
func (fc *FuncCtx) fieldOf(l *Loc, info *structInfo, i int) *Loc {
	ft := info.st.Field(i).Type()
	if l.kind == locObj && len(l.path) == 0 {
		return &Loc{kind: locField, heap: fc.eng.fieldHeap(info, i), ref: l.ref, gt: ft}
	}
	n := *l
	n.path = append(append([]pathStep{}, l.path...), pathStep{info, i})
	n.gt = ft
	return &n
}

// elemFrame: after array `ref` of an element heap changed (old -> new), every slice
// backed by another array reads the same elements (in the elem_X vocabulary).
func (fc *FuncCtx) elemFrame(heap, old, new, ref string) {
	es := arrayElemSort(arrayElemSort(fc.eng.heapSort(heap)))
	ef := fc.eng.elemFn(es)
	fc.q.assume(fmt.Sprintf("(forall ((s Slice) (k Int)) (! (=> (not (= (s-arr s) %s)) (= (%s %s s k) (%s %s s k))) :pattern ((%s %s s k)) :pattern ((%s %s s k))))", ref, ef, new, ef, old, ef, new, ef, old))
}
