package main

import (
	"regexp"
	"bytes"
	"context"
	"fmt"
	"os"
	"os/exec"
	"path/filepath"
	"strings"
	"sync"
	"time"
)

// SolverResult is the verdict of one solver on one query.
type SolverResult struct {
	Solver string  `json:"solver"`
	Answer string  `json:"answer"` // unsat | sat | unknown | timeout | error
	Secs   float64 `json:"secs"`
	Output string  `json:"output,omitempty"`
}

type solverSpec struct {
	name string
	argv func(file string, timeoutS int) []string
	// rewrite adapts the generic SMT-LIB text to the solver dialect.
	rewrite func(s string) string
}

var cvc5Rename = regexp.MustCompile(`\bstr\.([A-Za-z_]+)`)

var solvers = []solverSpec{
	{
		name: "z3-new",
		argv: func(f string, t int) []string {
			return []string{"z3-new", fmt.Sprintf("-T:%d", t), f}
		},
	},
	{
		name: "z3",
		argv: func(f string, t int) []string {
			return []string{"/usr/bin/z3", fmt.Sprintf("-T:%d", t), f}
		},
	},
	{
		name: "cvc5",
		argv: func(f string, t int) []string {
			return []string{"cvc5", "--lang=smt2", fmt.Sprintf("--tlimit=%d", t*1000), f}
		},
		rewrite: func(s string) string {
			// cvc5 needs a logic; ALL covers quantifiers + datatypes + arrays + ints. ALL also brings in the
			// theory of strings, whose symbols the prelude's own (uninterpreted) string vocabulary would shadow
			// (cvc5 rejects the file): the prelude's symbols are renamed for this solver.
			return "(set-logic ALL)\n" + cvc5Rename.ReplaceAllString(s, "gstr.$1")
		},
	},
}

func parseAnswer(out string) string {
	if strings.Contains(out, "(error") {
		return "error"
	}
	for _, ln := range strings.Split(out, "\n") {
		ln = strings.TrimSpace(ln)
		switch ln {
		case "unsat", "sat", "unknown", "timeout":
			return ln
		}
		if strings.HasPrefix(ln, "(error") {
			return "error"
		}
	}
	return "error"
}

func runSolver(sp solverSpec, dir, base, text string, timeoutS int) SolverResult {
	if sp.rewrite != nil {
		text = sp.rewrite(text)
	}
	f := filepath.Join(dir, base+"."+sp.name+".smt2")
	if err := os.WriteFile(f, []byte(text), 0o644); err != nil {
		return SolverResult{Solver: sp.name, Answer: "error", Output: err.Error()}
	}
	defer os.Remove(f)
	ctx, cancel := context.WithTimeout(context.Background(), time.Duration(timeoutS+2)*time.Second)
	defer cancel()
	argv := sp.argv(f, timeoutS)
	cmd := exec.CommandContext(ctx, argv[0], argv[1:]...)
	var buf bytes.Buffer
	cmd.Stdout = &buf
	cmd.Stderr = &buf
	t0 := time.Now()
	_ = cmd.Run()
	secs := time.Since(t0).Seconds()
	out := buf.String()
	ans := parseAnswer(out)
	if ctx.Err() != nil && ans == "error" {
		ans = "timeout"
	}
	if len(out) > 4000 && !strings.Contains(base, ".cand") && !strings.Contains(base, ".model") {
		out = out[:4000]
	}
	return SolverResult{Solver: sp.name, Answer: ans, Secs: secs, Output: out}
}

// Verdict aggregates the race.
type Verdict struct {
	Answer  string         `json:"answer"` // unsat | sat | unknown | disagree
	By      string         `json:"by"`
	Secs    float64        `json:"secs"`
	Results []SolverResult `json:"results"`
	Model   string         `json:"model,omitempty"`
	Cand    map[string]string `json:"candidate_model,omitempty"`
}

// race runs the query on the installed solvers. z3-new first (it decides almost
// everything in milliseconds); the others are consulted only if it does not say
// unsat, to confirm a sat (disagreement = tool error) or to rescue an unknown.
func race(dir, base, text string, timeoutS int, wantModel bool) Verdict {
	var v Verdict
	t0 := time.Now()
	first := runSolver(solvers[0], dir, base, text, timeoutS)
	v.Results = append(v.Results, first)
	if first.Answer == "unsat" {
		v.Answer, v.By = "unsat", first.Solver
		v.Secs = time.Since(t0).Seconds()
		return v
	}
	// consult the others in parallel
	var wg sync.WaitGroup
	res := make([]SolverResult, len(solvers)-1)
	for i, sp := range solvers[1:] {
		wg.Add(1)
		go func(i int, sp solverSpec) {
			defer wg.Done()
			res[i] = runSolver(sp, dir, base, text, timeoutS)
		}(i, sp)
	}
	wg.Wait()
	v.Results = append(v.Results, res...)
	v.Secs = time.Since(t0).Seconds()
	anyUnsat, anySat := "", ""
	for _, r := range v.Results {
		if r.Answer == "unsat" && anyUnsat == "" {
			anyUnsat = r.Solver
		}
		if r.Answer == "sat" && anySat == "" {
			anySat = r.Solver
		}
	}
	switch {
	case anyUnsat != "" && anySat != "":
		v.Answer, v.By = "disagree", anyUnsat+" vs "+anySat
	case anyUnsat != "":
		v.Answer, v.By = "unsat", anyUnsat
	case anySat != "":
		v.Answer, v.By = "sat", anySat
		if wantModel && first.Answer == "sat" {
			m := runSolver(solvers[0], dir, base+".model", text+"\n(get-model)\n", timeoutS)
			v.Model = m.Output
		}
	default:
		v.Answer, v.By = "unknown", ""
	}
	return v
}

// candidateModel: a model of the quantifier-free relaxation of a failed obligation
// (every quantified fact dropped). It satisfies all ground facts of the VC but may
// violate a dropped quantified one: a candidate counterexample, to be confirmed by
// replay on the real code. Returns name -> value for Bool/Int constants.
func candidateModel(dir, base, text string, timeoutS int) map[string]string {
	var sb strings.Builder
	for _, ln := range strings.Split(text, "\n") {
		if strings.Contains(ln, "(forall ") || strings.Contains(ln, "(exists ") {
			if strings.HasPrefix(ln, "(assert (not ") && strings.HasSuffix(strings.TrimSpace(ln), "))") {
				// the negated goal itself is quantified: keep nothing of it (pure path-condition model)
			}
			continue
		}
		if strings.HasPrefix(ln, "(check-sat") {
			continue
		}
		sb.WriteString(ln)
		sb.WriteByte('\n')
	}
	sb.WriteString("(check-sat)\n(get-model)\n")
	r := runSolver(solvers[0], dir, base+".cand", sb.String(), timeoutS)
	if !strings.HasPrefix(strings.TrimSpace(r.Output), "sat") {
		return nil
	}
	out := map[string]string{}
	lines := strings.Split(r.Output, "\n")
	for i := 0; i < len(lines); i++ {
		ln := strings.TrimSpace(lines[i])
		if !strings.HasPrefix(ln, "(define-fun ") {
			continue
		}
		f := strings.Fields(ln)
		if len(f) < 4 || f[2] != "()" {
			continue
		}
		name, sort := f[1], f[3]
		if sort != "Bool" && sort != "Int" {
			continue
		}
		val := ""
		if len(f) > 4 {
			val = strings.Join(f[4:], " ")
		} else if i+1 < len(lines) {
			val = strings.TrimSpace(lines[i+1])
		}
		val = strings.TrimSuffix(strings.TrimSpace(val), ")")
		if strings.HasPrefix(val, "(- ") {
			val = "-" + strings.TrimSuffix(strings.TrimPrefix(val, "(- "), ")")
		}
		out[name] = val
	}
	return out
}
