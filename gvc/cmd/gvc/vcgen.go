package main

import (
	"crypto/sha1"
	"runtime/debug"

	"fmt"
	"go/constant"
	"go/token"
	"go/types"
	"sort"
	"strings"

	"golang.org/x/tools/go/ssa"
)

// Engine holds the loaded program, the contracts and global naming tables.
type Engine struct {
	prog    *ssa.Program
	fset    *token.FileSet
	funcs   map[string]*ssa.Function // by String(), repo functions incl. closures
	allFns  map[string]*ssa.Function // every function in the program (deps too)
	sorts   *Sorts
	cs      *ContractSet
	byKey   map[string]*Contract
	heaps   map[string]string
	strLits map[string]string
	litOrd  []string
	boxes   map[string]bool // sorts that need box/unbox functions
	ufuns   map[string]string
	ufunOrd []string
	tconsts map[string]string
	modPath string
	warns   []string
	warned  map[string]bool
	ifaceImpls map[string][]int
	ifaceAsserts  map[string]types.Type
	elems         map[string]bool
	modCache      map[*ssa.Function]map[string]bool
	scc           map[string]int
	sccSize       map[int]int
	missing       []string
	contractFiles []string
	known         []KnownFinding
}

func (e *Engine) warn(f string, a ...any) {
	s := fmt.Sprintf(f, a...)
	if e.warned == nil {
		e.warned = map[string]bool{}
	}
	if !e.warned[s] {
		e.warned[s] = true
		e.warns = append(e.warns, s)
	}
}

func (e *Engine) strLit(s string) string {
	if n, ok := e.strLits[s]; ok {
		return n
	}
	n := fmt.Sprintf("strlit_%d", len(e.strLits))
	if s == "" {
		n = "str.empty"
	}
	e.strLits[s] = n
	e.litOrd = append(e.litOrd, s)
	return n
}

// ufun declares (once) an uninterpreted function and returns its name.
func (e *Engine) ufun(name string, args []string, res string) string {
	name = sanitize(name)
	sig := "(" + strings.Join(args, " ") + ") " + res
	if old, ok := e.ufuns[name]; ok {
		if old != sig {
			// overload by signature
			name = name + "_" + sanitize(sig)
			if _, ok := e.ufuns[name]; ok {
				return name
			}
		} else {
			return name
		}
	}
	e.ufuns[name] = sig
	e.ufunOrd = append(e.ufunOrd, name)
	return name
}

// elemFn: spec-level slice indexing elem_X(E, s, i) = E[arr s][off s + i]; a
// function symbol of its own so that quantified contracts get clean triggers.
func (e *Engine) elemFn(sort string) string {
	if e.elems == nil {
		e.elems = map[string]bool{}
	}
	e.elems[sort] = true
	return "elem_" + sanitize(sort)
}

func (e *Engine) boxFn(sort string) string {
	e.boxes[sort] = true
	return "box_" + sanitize(sort)
}
func (e *Engine) unboxFn(sort string) string {
	e.boxes[sort] = true
	return "unbox_" + sanitize(sort)
}

// typeConst resolves a Go type name (as written by types.Type.String()) to the
// SMT constant holding its dynamic type id.
func (e *Engine) typeConst(name string) (string, bool) {
	if c, ok := e.tconsts[name]; ok {
		return c, true
	}
	return "", false
}

func (e *Engine) typeIDTerm(t types.Type) string {
	k := t.String()
	if c, ok := e.tconsts[k]; ok {
		return c
	}
	id := e.sorts.typeID(t)
	c := fmt.Sprintf("%d", id)
	e.tconsts[k] = c
	return c
}

// globalPrelude: sorts, datatypes, string literals, spec functions, axioms.
func (e *Engine) globalPrelude(axioms []string) string {
	var sb strings.Builder
	sb.WriteString(e.sorts.prelude())
	for _, s := range e.cs.Spec.Sorts {
		if !e.sorts.extra[s] {
			fmt.Fprintf(&sb, "(declare-sort %s 0)\n(declare-const zero_%s %s)\n", s, s, s)
		}
	}
	sb.WriteString(`(define-fun go.div ((a Int) (b Int)) Int (ite (>= a 0) (div a b) (- (div (- a) b))))
(define-fun go.mod ((a Int) (b Int)) Int (- a (* b (go.div a b))))
(declare-fun bytes2str ((Array Int Int) Int Int) Str)
(assert (forall ((a (Array Int Int)) (o Int) (n Int)) (! (=> (>= n 0) (= (str.len (bytes2str a o n)) n)) :pattern ((bytes2str a o n)))))
(assert (forall ((a (Array Int Int)) (o Int) (n Int) (k Int)) (! (=> (and (<= 0 k) (< k n)) (= (str.at (bytes2str a o n) k) (select a (+ o k)))) :pattern ((str.at (bytes2str a o n) k)))))
`)
	for _, s := range e.litOrd {
		n := e.strLits[s]
		if s != "" {
			fmt.Fprintf(&sb, "(declare-const %s Str)\n", n)
		}
		fmt.Fprintf(&sb, "(assert (= (str.len %s) %d))\n", n, len(s))
		if len(s) <= 64 {
			for i := 0; i < len(s); i++ {
				fmt.Fprintf(&sb, "(assert (= (str.at %s %d) %d))\n", n, i, s[i])
			}
		}
	}
	var bs []string
	for b := range e.boxes {
		bs = append(bs, b)
	}
	sort.Strings(bs)
	for _, b := range bs {
		sn := sanitize(b)
		fmt.Fprintf(&sb, "(declare-fun box_%s (%s) Int)\n(declare-fun unbox_%s (Int) %s)\n", sn, b, sn, b)
		fmt.Fprintf(&sb, "(assert (forall ((x %s)) (! (= (unbox_%s (box_%s x)) x) :pattern ((box_%s x)))))\n", b, sn, sn, sn)
	}
	// the indexing function over Int elements is part of the spec vocabulary (raw SMT axioms mention it)
	e.elemFn("Int")
	var els []string
	for b := range e.elems {
		els = append(els, b)
	}
	sort.Strings(els)
	for _, b := range els {
		sn := sanitize(b)
		fmt.Fprintf(&sb, "(declare-fun elem_%s ((Array Int (Array Int %s)) Slice Int) %s)\n", sn, b, b)
		fmt.Fprintf(&sb, "(assert (forall ((h (Array Int (Array Int %s))) (s Slice) (i Int)) (! (= (elem_%s h s i) (select (select h (s-arr s)) (+ (s-off s) i))) :pattern ((elem_%s h s i)))))\n", b, sn, sn)
	}
	for _, n := range e.cs.Spec.FunOrder {
		f := e.cs.Spec.Funs[n]
		if f.Reads != "" {
			fmt.Fprintf(&sb, "(declare-fun %s (%s %s) %s)\n", f.Name, f.ReadsSort, strings.Join(f.Args, " "), f.Result)
			continue
		}
		fmt.Fprintf(&sb, "(declare-fun %s (%s) %s)\n", f.Name, strings.Join(f.Args, " "), f.Result)
	}
	for _, n := range e.ufunOrd {
		fmt.Fprintf(&sb, "(declare-fun %s %s)\n", n, e.ufuns[n])
		if strings.HasPrefix(n, "fn_") && e.ufuns[n] == "() Int" {
			// the value of a declared function is never nil
			fmt.Fprintf(&sb, "(assert (not (= %s 0)))\n", n)
		}
	}
	for _, r := range e.cs.Spec.RawSMT {
		sb.WriteString(r + "\n")
	}
	for _, a := range axioms {
		sb.WriteString("(assert " + a + ")\n")
	}
	return sb.String()
}

// ---- per-function context --------------------------------------------------------

type FuncCtx struct {
	eng      *Engine
	fn       *ssa.Function
	con      *Contract
	q        *Query
	pfx      string
	depth    int
	nstate   int
	val      map[ssa.Value]TV
	tup      map[ssa.Value][]TV
	reach    map[*ssa.BasicBlock]string
	stOut    map[*ssa.BasicBlock]*State
	edge     map[[2]int]string // (from,to) -> edge condition term
	s0       *State
	rets     []retSite
	defers   []deferRec
	nskolem  int
	loops    map[*ssa.BasicBlock]*loopInfo
	loopOrd  []*loopInfo
	closures map[ssa.Value]*ssa.MakeClosure
	ordinals map[string]int
	top      *FuncCtx // outermost (for obligations naming when inlining)
	inlineOf string
	paramTV  map[string]TV
	assume0  []string
	checked  bool
	itercnt  map[*ssa.BasicBlock]string
	fnName   string
	results  []TV
	exitSt   *State
	exitReach string
	tagsAll  []string
	modCache map[*ssa.Function]map[string]bool
	wantCover bool
	stack    []*ssa.Function
	curInstr ssa.Instruction
	varHead  map[*ssa.BasicBlock]string // variant value at loop head
	initHeapHook func(st *State, name, term string)
	unknownCalls  []string
	usedTrusted   map[string]bool
	usedContracts map[string]bool
	inlined       map[string]bool
	ninline       int
	entryVar      string
	frameHeap     map[string][]string
	frameGhost    map[string]bool
	frameWhole    map[string]bool
	curReach      string
	cellObjs      map[types.Object]bool
	cellNames     map[string]bool
	atSites       map[string]int
	atMatched     map[int]int
	curEnv        *Env
	pendingSets   []int
	wfSeen        map[string]bool
	schemaUses    int
	assumedPosts  map[string]bool
	ifaceCons     []*Contract
	siteResults   map[string]TV
	callSites     map[string]int
}

type retSite struct {
	cond string
	vals []TV
	st   *State
}

type deferRec struct {
	guard string
	call  *ssa.CallCommon
	args  []TV
	fnv   TV
	instr *ssa.Defer
}

type loopInfo struct {
	head   *ssa.BasicBlock
	body   map[*ssa.BasicBlock]bool
	backs  []*ssa.BasicBlock
	ord    int
	con    *LoopContract
	mods   map[string]bool
	modAll bool
	strIters []ssa.Value
}

func (fc *FuncCtx) heapInit(st *State, name, term string) {
	// closure axiom-free: only well-formedness facts that hold for every real heap
	if fc.initHeapHook != nil {
		fc.initHeapHook(st, name, term)
	}
}

func (fc *FuncCtx) name(v ssa.Value) string { return fc.pfx + sanitize(v.Name()) }

func (fc *FuncCtx) posOf(in ssa.Instruction) string {
	if in == nil {
		return ""
	}
	p := in.Pos()
	if !p.IsValid() {
		// fall back to the enclosing function
		p = fc.fn.Pos()
	}
	pos := fc.eng.fset.Position(p)
	return fmt.Sprintf("%s:%d", strings.TrimPrefix(pos.Filename, "/repo/"), pos.Line)
}

func (fc *FuncCtx) ordinal(class string) int {
	t := fc.topCtx()
	k := fc.inlineOf + "|" + class
	t.ordinals[k]++
	return t.ordinals[k] - 1
}

func (fc *FuncCtx) topCtx() *FuncCtx {
	if fc.top != nil {
		return fc.top
	}
	return fc
}

// oblige records a proof obligation: under guard (reachability) the goal holds.
func (fc *FuncCtx) oblige(kind, label, guard, goal, desc string, tags []string) *Obligation {
	t := fc.topCtx()
	name := kind
	if label != "" {
		name = kind + "/" + label
	}
	if fc.inlineOf != "" {
		name = name + "@inl:" + fc.inlineOf
	}
	o := &Obligation{Fn: t.fnName, Name: name, Kind: kind, Guard: guard, Goal: goal, Desc: desc, Pos: fc.posOf(fc.curInstr), Tags: tags, n: len(fc.q.items)}
	// a recorded known finding narrows the obligation to the cases outside its `when`
	if k := fc.eng.knownFor(t.fnName, name); k != nil && k.When != "" && fc.curEnv != nil {
		we, err := parseExpr(k.When)
		if err != nil {
			panic(trErr("known finding " + name + ": " + err.Error()))
		}
		var w string
		if err := catchTr("known finding "+name+" when", func() { w = fc.curEnv.trBool(we) }); err != nil {
			panic(trErr(err.Error()))
		}
		// the finding itself: must still fail, otherwise the entry is stale
		stale := &Obligation{Fn: t.fnName, Name: name + "/known-case", Kind: "known", Guard: and(guard, w), Goal: goal, Desc: "known finding (expected to fail): " + k.What, Pos: o.Pos, Tags: tags, n: len(fc.q.items), Known: true}
		fc.q.obls = append(fc.q.obls, stale)
		o.Goal = fmt.Sprintf("(=> (not %s) %s)", w, goal)
		o.Desc += "  [outside known finding: " + k.When + "]"
		goal = o.Goal
	}
	fc.q.obls = append(fc.q.obls, o)
	// assert-then-assume (never for an unconditional `false`: that would make
	// everything after an undischarged obligation vacuously provable)
	o.assumeIdx = -1
	if goal != "false" {
		o.assumeIdx = len(fc.q.items)
		fc.q.assume(fmt.Sprintf("(=> %s %s)", guard, goal))
	}
	return o
}

func and(xs ...string) string {
	var ys []string
	for _, x := range xs {
		if x == "true" || x == "" {
			continue
		}
		if x == "false" {
			return "false"
		}
		ys = append(ys, x)
	}
	switch len(ys) {
	case 0:
		return "true"
	case 1:
		return ys[0]
	}
	return "(and " + strings.Join(ys, " ") + ")"
}

func or(xs ...string) string {
	var ys []string
	for _, x := range xs {
		if x == "false" || x == "" {
			continue
		}
		if x == "true" {
			return "true"
		}
		ys = append(ys, x)
	}
	switch len(ys) {
	case 0:
		return "false"
	case 1:
		return ys[0]
	}
	return "(or " + strings.Join(ys, " ") + ")"
}

func not(x string) string {
	switch x {
	case "true":
		return "false"
	case "false":
		return "true"
	}
	return "(not " + x + ")"
}

// assumeReached records a fact about values of the current program point: it holds when the point is reached.
func (fc *FuncCtx) assumeReached(f string) {
	if f == "true" || f == "" {
		return
	}
	if g := fc.curReach; g != "" && g != "true" {
		fc.q.assume(fmt.Sprintf("(=> %s %s)", g, f))
		return
	}
	fc.q.assume(f)
}

// wf returns the well-formedness fact every real value of the type satisfies.
func (fc *FuncCtx) wf(t string, gt types.Type) string {
	if gt == nil {
		return "true"
	}
	if n, ok := gt.(*types.Named); ok {
		if _, op := fc.eng.sorts.opaque[n.String()]; op {
			return "true"
		}
	}
	switch u := gt.Underlying().(type) {
	case *types.Basic:
		if u.Info()&types.IsInteger != 0 {
			lo, hi := intRange(u)
			return fmt.Sprintf("(and (<= %s %s) (<= %s %s))", lo, t, t, hi)
		}
	case *types.Slice:
		return fmt.Sprintf("(and (<= 0 (s-arr %s)) (<= 0 (s-off %s)) (<= 0 (s-len %s)) (<= (s-len %s) (s-cap %s)) (=> (= (s-arr %s) 0) (= (s-cap %s) 0)))", t, t, t, t, t, t, t)
	case *types.Pointer, *types.Map, *types.Chan, *types.Signature:
		return fmt.Sprintf("(<= 0 %s)", t)
	case *types.Interface:
		base := fmt.Sprintf("(and (<= 0 (i-typ %s)) (=> (= (i-typ %s) 0) (= (i-val %s) 0)))", t, t, t)
		// a value of one of go/ast's node interfaces (Node, Expr, Stmt, Decl, Spec) is nil or of a type that
		// implements it (the Go type system): a declaration is never a block, an expression never a statement
		if n, ok := gt.(*types.Named); ok && n.Obj().Pkg() != nil && n.Obj().Pkg().Path() == "go/ast" && u.NumMethods() > 0 {
			f := fc.eng.ufun("implements_"+shortTypeName(n), []string{"Int"}, "Bool")
			fc.eng.noteIfaceAssert(n, f)
			return fmt.Sprintf("(and %s (or (= (i-typ %s) 0) (%s (i-typ %s))))", base, t, f, t)
		}
		return base
	case *types.Struct:
		info := fc.eng.sorts.structInfoOf(gt)
		if info == nil {
			return "true"
		}
		var parts []string
		for i := 0; i < u.NumFields(); i++ {
			parts = append(parts, fc.wf(fmt.Sprintf("(%s %s)", info.fields[i], t), u.Field(i).Type()))
		}
		return and(parts...)
	}
	return "true"
}

// allocd: every reference inside a real value of the type is at or below the
// allocation watermark (all references stored anywhere are allocated).
func (fc *FuncCtx) allocd(t string, gt types.Type, wm string) string {
	if gt == nil {
		return "true"
	}
	if n, ok := gt.(*types.Named); ok {
		if _, op := fc.eng.sorts.opaque[n.String()]; op {
			return "true"
		}
	}
	switch u := gt.Underlying().(type) {
	case *types.Pointer, *types.Map:
		return fmt.Sprintf("(<= %s %s)", t, wm)
	case *types.Slice:
		return fmt.Sprintf("(<= (s-arr %s) %s)", t, wm)
	case *types.Struct:
		info := fc.eng.sorts.structInfoOf(gt)
		if info == nil {
			return "true"
		}
		var parts []string
		for i := 0; i < u.NumFields(); i++ {
			parts = append(parts, fc.allocd(fmt.Sprintf("(%s %s)", info.fields[i], t), u.Field(i).Type(), wm))
		}
		return and(parts...)
	}
	return "true"
}

func intRange(b *types.Basic) (string, string) {
	switch b.Kind() {
	case types.Int8:
		return "(- 128)", "127"
	case types.Int16:
		return "(- 32768)", "32767"
	case types.Int32, types.UntypedRune:
		return "(- 2147483648)", "2147483647"
	case types.Uint8:
		return "0", "255"
	case types.Uint16:
		return "0", "65535"
	case types.Uint32:
		return "0", "4294967295"
	case types.Uint, types.Uint64, types.Uintptr:
		return "0", "18446744073709551615"
	}
	return "(- 9223372036854775808)", "9223372036854775807"
}

func (fc *FuncCtx) constTV(c *ssa.Const) TV {
	eng := fc.eng
	t := c.Type()
	so := eng.sorts.sortOf(t)
	if c.Value == nil {
		return TV{T: eng.sorts.zero(t), S: so, G: t}
	}
	switch c.Value.Kind() {
	case constant.Bool:
		return TV{T: fmt.Sprint(constant.BoolVal(c.Value)), S: "Bool", G: t}
	case constant.String:
		return TV{T: eng.strLit(constant.StringVal(c.Value)), S: "Str", G: t}
	case constant.Int:
		s := c.Value.ExactString()
		if strings.HasPrefix(s, "-") {
			s = "(- " + s[1:] + ")"
		}
		return TV{T: s, S: "Int", G: t}
	}
	return TV{T: eng.sorts.zero(t), S: so, G: t}
}

// v returns the typed term of an SSA value.
func (fc *FuncCtx) v(x ssa.Value) TV {
	if tv, ok := fc.val[x]; ok {
		return tv
	}
	switch c := x.(type) {
	case *ssa.Const:
		return fc.constTV(c)
	case *ssa.Global:
		// address of a package-level variable
		n := "glob_" + sanitize(c.String())
		tv := TV{T: n, S: "Int", G: c.Type()}
		el, _ := deref(c.Type())
		tv.L = fc.eng.derefLoc(n, el)
		fc.eng.ufun(n, nil, "Int")
		fc.val[x] = tv
		return tv
	case *ssa.Function:
		n := "fn_" + sanitize(c.String())
		fc.eng.ufun(n, nil, "Int")
		tv := TV{T: n, S: "Int", G: c.Type()}
		fc.val[x] = tv
		return tv
	case *ssa.Builtin:
		return TV{T: "0", S: "Int"}
	}
	panic(fmt.Sprintf("%s: value %s (%T) used before definition", fc.fn, x.Name(), x))
}

func (fc *FuncCtx) setVal(x ssa.Value, term string) TV {
	so := fc.eng.sorts.sortOf(x.Type())
	n := fc.q.define(fc.name(x), so, term)
	tv := TV{T: n, S: so, G: x.Type()}
	fc.val[x] = tv
	return tv
}

func (fc *FuncCtx) freshVal(x ssa.Value) TV {
	so := fc.eng.sorts.sortOf(x.Type())
	n := fc.q.fresh(fc.name(x), so)
	tv := TV{T: n, S: so, G: x.Type()}
	fc.val[x] = tv
	return tv
}

// ---- CFG analysis ----------------------------------------------------------------

func (fc *FuncCtx) analyzeLoops() []*ssa.BasicBlock {
	fn := fc.fn
	fc.loops = map[*ssa.BasicBlock]*loopInfo{}
	for _, b := range fn.Blocks {
		for _, s := range b.Succs {
			if s.Dominates(b) {
				li := fc.loops[s]
				if li == nil {
					li = &loopInfo{head: s, body: map[*ssa.BasicBlock]bool{s: true}}
					fc.loops[s] = li
				}
				li.backs = append(li.backs, b)
				// collect body: nodes reaching b without passing head
				var stack []*ssa.BasicBlock
				if !li.body[b] {
					li.body[b] = true
					stack = append(stack, b)
				}
				for len(stack) > 0 {
					n := stack[len(stack)-1]
					stack = stack[:len(stack)-1]
					for _, p := range n.Preds {
						if !li.body[p] {
							li.body[p] = true
							stack = append(stack, p)
						}
					}
				}
			}
		}
	}
	// ordinals in source order of the loop head position (block index as tie-break)
	var heads []*ssa.BasicBlock
	for h := range fc.loops {
		heads = append(heads, h)
	}
	sort.Slice(heads, func(i, j int) bool {
		pi, pj := fc.loopPos(heads[i]), fc.loopPos(heads[j])
		if pi != pj {
			return pi < pj
		}
		return heads[i].Index < heads[j].Index
	})
	for i, h := range heads {
		li := fc.loops[h]
		li.ord = i
		if fc.con != nil {
			li.con = fc.con.Loops[i]
		}
		fc.loopOrd = append(fc.loopOrd, li)
	}
	// reverse post-order ignoring back edges
	seen := map[*ssa.BasicBlock]bool{}
	var post []*ssa.BasicBlock
	var dfs func(b *ssa.BasicBlock)
	dfs = func(b *ssa.BasicBlock) {
		seen[b] = true
		for _, s := range b.Succs {
			if s.Dominates(b) { // back edge
				continue
			}
			if !seen[s] {
				dfs(s)
			}
		}
		post = append(post, b)
	}
	dfs(fn.Blocks[0])
	for i, j := 0, len(post)-1; i < j; i, j = i+1, j-1 {
		post[i], post[j] = post[j], post[i]
	}
	return post
}

func (fc *FuncCtx) loopPos(h *ssa.BasicBlock) token.Pos {
	// the smallest valid position among the loop's instructions approximates source order
	li := fc.loops[h]
	best := token.Pos(1 << 40)
	for b := range li.body {
		for _, in := range b.Instrs {
			if _, ok := in.(*ssa.DebugRef); ok {
				continue
			}
			if _, ok := in.(*ssa.Phi); ok {
				continue // a phi carries the position of the variable's declaration
			}
			if p := in.Pos(); p.IsValid() && p < best {
				best = p
			}
		}
	}
	return best
}

// ---- running a function ------------------------------------------------------------

// bindParam declares a parameter-like value with wf assumptions.
func (fc *FuncCtx) declareInput(x ssa.Value, guard string) TV {
	tv := fc.freshVal(x)
	fc.q.assume(fc.wf(tv.T, x.Type()))
	fc.q.assume(fc.allocd(tv.T, x.Type(), fc.s0.get("$wm")))
	return tv
}

// envFor builds the contract-expression environment of this function at a state.
func (fc *FuncCtx) envFor(st *State, extra map[string]TV) *Env {
	vars := map[string]TV{}
	for k, v := range fc.paramTV {
		vars[k] = v
	}
	// variantN: the value the decreases expression of loop N had at its head (for nested loops)
	for _, li := range fc.loopOrd {
		if v, ok := fc.varHead[li.head]; ok {
			vars[fmt.Sprintf("variant%d", li.ord)] = TV{T: v, S: "Int"}
		}
	}
	for k, v := range extra {
		vars[k] = v
	}
	return &Env{fc: fc, vars: vars, st: st, old: fc.s0}
}

// conjuncts splits an expression at its top-level &&.
func conjuncts(e Expr) []Expr {
	if b, ok := e.(EBin); ok && b.Op == "&&" {
		return append(conjuncts(b.L), conjuncts(b.R)...)
	}
	return []Expr{e}
}

func catchTr(where string, f func()) (err error) {
	defer func() {
		if r := recover(); r != nil {
			if te, ok := r.(trErr); ok {
				err = fmt.Errorf("%s: %s", where, string(te))
				return
			}
			panic(r)
		}
	}()
	f()
	return nil
}

func clauseLabel(c Clause, i int) string {
	if c.Name != "" {
		return c.Name
	}
	// unlabelled clause: named by its text, so that inserting or removing another clause does not
	// rename it in the ledger
	h := sha1.Sum([]byte(strings.Join(strings.Fields(c.Src), " ")))
	return fmt.Sprintf("c-%x", h[:3])
}

// verifyFunction generates all obligations of fn against its contract.
func (e *Engine) verifyFunction(fn *ssa.Function, con *Contract) (q *Query, fc *FuncCtx, err error) {
	q = newQuery()
	fc = &FuncCtx{eng: e, fn: fn, con: con, q: q, val: map[ssa.Value]TV{}, tup: map[ssa.Value][]TV{},
		reach: map[*ssa.BasicBlock]string{}, stOut: map[*ssa.BasicBlock]*State{}, edge: map[[2]int]string{},
		closures: map[ssa.Value]*ssa.MakeClosure{}, ordinals: map[string]int{}, paramTV: map[string]TV{},
		itercnt: map[*ssa.BasicBlock]string{}, fnName: fn.String(), varHead: map[*ssa.BasicBlock]string{},
		usedTrusted: map[string]bool{}, usedContracts: map[string]bool{}, inlined: map[string]bool{}, assumedPosts: map[string]bool{}, atSites: map[string]int{}, atMatched: map[int]int{}, siteResults: map[string]TV{}, callSites: map[string]int{}}
	fc.stack = []*ssa.Function{fn}
	if con != nil {
		fc.checked = con.Checked
	}
	defer func() {
		if r := recover(); r != nil {
			if te, ok := r.(trErr); ok {
				err = fmt.Errorf("%s: %s", fn, string(te))
				return
			}
			if ue, ok := r.(unsupported); ok {
				err = fmt.Errorf("%s: unsupported: %s", fn, string(ue))
				return
			}
			err = fmt.Errorf("%s: internal error in the VC generator: %v\n%s", fn, r, debug.Stack())
		}
	}()
	fc.s0 = fc.newState()
	q.assume(fmt.Sprintf("(<= 0 %s)", fc.s0.get("$wm")))
	// parameters, free variables
	for i, p := range fn.Params {
		tv := fc.declareInput(p, "true")
		name := p.Name()
		if con != nil {
			if fn.Signature.Recv() != nil {
				if i == 0 && con.Recv != "" {
					name = con.Recv
				} else if i > 0 && i-1 < len(con.Params) {
					name = con.Params[i-1]
				}
			} else if i < len(con.Params) {
				name = con.Params[i]
			}
		}
		fc.paramTV[name] = tv
		fc.paramTV[name+"0"] = tv // entry value (parameters are assignable in Go)
		if name != p.Name() {
			fc.paramTV[p.Name()] = tv
		}
	}
	for _, fv := range fn.FreeVars {
		tv := fc.declareInput(fv, "true")
		q.assume("(not (= " + tv.T + " 0))") // the address of a captured variable
		el, _ := deref(fv.Type())
		// a captured variable: name denotes its content
		fc.paramTV[fv.Name()] = TV{L: e.derefLoc(tv.T, el), G: el}
		fc.paramTV["&"+fv.Name()] = tv
	}
	st := fc.s0.clone()
	// implicit precondition: a pointer receiver is non-nil (asserted at call sites)
	if fn.Signature.Recv() != nil && (con == nil || !con.NilRecv) {
		if _, ok := fn.Params[0].Type().Underlying().(*types.Pointer); ok {
			q.assume("(not (= " + fc.val[fn.Params[0]].T + " 0))")
		}
	}
	// requires
	if con != nil {
		env := fc.envFor(fc.s0, nil)
		for i, c := range con.Requires {
			var t string
			if err := catchTr(fmt.Sprintf("%s requires %d", con.Key, i), func() { t = env.trBool(c.E) }); err != nil {
				return nil, nil, err
			}
			q.assume(t)
		}
		for i, c := range con.Invariants {
			var t string
			if err := catchTr(fmt.Sprintf("%s invariant %d", con.Key, i), func() { t = env.trBool(c.E) }); err != nil {
				return nil, nil, err
			}
			q.assume(t)
		}
		for i, c := range con.Unfold {
			var t string
			if err := catchTr(fmt.Sprintf("%s unfold %d", con.Key, i), func() { t = env.trBool(c.E) }); err != nil {
				return nil, nil, err
			}
			q.assume(t)
			fc.schemaUses++
		}
		// behavioural subtyping: a method implementing a contracted interface method
		// may assume only that contract's precondition (self := boxed(receiver))
		for _, ic := range e.ifaceContractsFor(fn) {
			ienv := fc.ifaceEnv(ic, fc.s0, nil)
			for i, c := range ic.Requires {
				var t string
				if err := catchTr(fmt.Sprintf("%s requires %d (as implemented by %s)", ic.Key, i, con.Key), func() { t = ienv.trBool(c.E) }); err != nil {
					return nil, nil, err
				}
				q.assume(t)
			}
			fc.ifaceCons = append(fc.ifaceCons, ic)
			// the interface's frame binds the implementation unless it declares a tighter one
			if !fc.con.HasAssigns && ic.HasAssigns {
				cc := *fc.con
				cc.HasAssigns = true
				cc.Assigns = ic.Assigns
				cc.AssignsSrc = ic.AssignsSrc
				fc.con = &cc
				con = &cc
			}
		}
		// vacuity guard: the precondition (with the axioms) must be satisfiable
		o := &Obligation{Fn: fc.fnName, Name: "cover/pre", Kind: "cover", Guard: "true", Goal: "false", Desc: "precondition satisfiable", Cover: true, n: len(q.items), Pos: fc.posOfFn()}
		q.obls = append(q.obls, o)
	}
	fc.run(st, "true")
	fc.finish()
	return q, fc, nil
}

func (fc *FuncCtx) posOfFn() string {
	pos := fc.eng.fset.Position(fc.fn.Pos())
	return fmt.Sprintf("%s:%d", strings.TrimPrefix(pos.Filename, "/repo/"), pos.Line)
}

type unsupported string

func (fc *FuncCtx) unsupported(f string, a ...any) {
	panic(unsupported(fmt.Sprintf(f, a...)))
}

// run symbolically executes the (loop-cut) CFG from the given state.
func (fc *FuncCtx) run(st0 *State, reach0 string) {
	fn := fc.fn
	if len(fn.Blocks) == 0 {
		fc.unsupported("no body")
	}
	order := fc.analyzeLoops()
	for _, b := range order {
		var st *State
		var reach string
		if b.Index == 0 {
			st, reach = st0, reach0
		} else {
			var edges []stEdge
			var conds []string
			li := fc.loops[b]
			for _, p := range b.Preds {
				if li != nil && li.body[p] && b.Dominates(p) {
					continue // back edge
				}
				ec, ok := fc.edge[[2]int{p.Index, b.Index}]
				if !ok {
					continue // pred not reachable/processed (dead)
				}
				edges = append(edges, stEdge{ec, fc.stOut[p]})
				conds = append(conds, ec)
			}
			if len(edges) == 0 {
				continue // unreachable block
			}
			reach = fc.q.define(fmt.Sprintf("%sreach_b%d", fc.pfx, b.Index), "Bool", or(conds...))
			st = fc.newState(edges...)
		}
		fc.reach[b] = reach
		if li := fc.loops[b]; li != nil {
			st = fc.enterLoop(li, b, st, reach)
		} else {
			fc.phis(b, nil)
		}
		fc.block(b, st, reach)
	}
}

// phis defines the phi nodes of a non-loop-head block.
func (fc *FuncCtx) phis(b *ssa.BasicBlock, only func(p *ssa.BasicBlock) bool) {
	for _, in := range b.Instrs {
		phi, ok := in.(*ssa.Phi)
		if !ok {
			break
		}
		var conds, vals []string
		for i, p := range b.Preds {
			ec, ok := fc.edge[[2]int{p.Index, b.Index}]
			if !ok {
				continue
			}
			if only != nil && !only(p) {
				continue
			}
			conds = append(conds, ec)
			vals = append(vals, fc.coerce(fc.v(phi.Edges[i]), phi.Type()).T)
		}
		if len(vals) == 0 {
			fc.freshVal(phi)
			continue
		}
		term := vals[len(vals)-1]
		for i := len(vals) - 2; i >= 0; i-- {
			term = fmt.Sprintf("(ite %s %s %s)", conds[i], vals[i], term)
		}
		fc.setVal(phi, term)
	}
}

// coerce adapts a nil constant etc. to the expected type's sort.
func (fc *FuncCtx) coerce(tv TV, t types.Type) TV {
	so := fc.eng.sorts.sortOf(t)
	if tv.S == so {
		return tv
	}
	if tv.T == "0" || tv.S == "Nil" {
		return TV{T: fc.eng.sorts.zero(t), S: so, G: t}
	}
	fc.unsupported("sort mismatch: %s:%s vs %s (%s)", tv.T, tv.S, so, t)
	return tv
}

// counterPhi: the phi of loop head b that counts the completed iterations: the hidden index of a range loop
// (iteration count = phi + 1) or a variable started at the constant 0 outside the loop and advanced by
// exactly 1 on every back edge (`for i := 0; ...; i++`: iteration count = phi). isRange tells which.
func counterPhi(b *ssa.BasicBlock, inLoop func(*ssa.BasicBlock) bool) (cp *ssa.Phi, isRange bool) {
	var cand *ssa.Phi
	n := 0
	for _, in := range b.Instrs {
		phi, ok := in.(*ssa.Phi)
		if !ok {
			break
		}
		if phi.Comment == "rangeindex" {
			return phi, true
		}
		good := len(phi.Edges) >= 2
		for i, e := range phi.Edges {
			if inLoop(b.Preds[i]) {
				bo, isBin := e.(*ssa.BinOp)
				if !isBin || bo.Op != token.ADD {
					good = false
					break
				}
				c, isC := bo.Y.(*ssa.Const)
				if !(bo.X == ssa.Value(phi) && isC && c.Value != nil && c.Value.ExactString() == "1") {
					good = false
					break
				}
			} else {
				c, isC := e.(*ssa.Const)
				if !isC || c.Value == nil || c.Value.ExactString() != "0" {
					good = false
					break
				}
			}
		}
		if good {
			cand = phi
			n++
		}
	}
	if n == 1 {
		return cand, false
	}
	return nil, false
}

// rangeIndexName: the source name of the index variable of a range loop (`for i := range x`): go/ssa names
// the increment of the hidden index by it inside the body.
func rangeIndexName(li *loopInfo, phi *ssa.Phi) string {
	var inc ssa.Value
	for _, in := range li.head.Instrs {
		if bo, ok := in.(*ssa.BinOp); ok && bo.X == ssa.Value(phi) && bo.Op == token.ADD {
			inc = bo
		}
	}
	if inc == nil {
		return ""
	}
	for blk := range li.body {
		for _, in := range blk.Instrs {
			if d, ok := in.(*ssa.DebugRef); ok && d.X == inc && !d.IsAddr {
				if obj := d.Object(); obj != nil {
					return obj.Name()
				}
			}
		}
	}
	return ""
}

func (fc *FuncCtx) loopNames(li *loopInfo, phiVal func(*ssa.Phi) TV) map[string]TV {
	// names visible at the loop head: phi comments -> phi values; other variables
	// through debug refs dominating the head.
	vars := map[string]TV{}
	h := li.head
	// walk dominators from entry to head: later definitions override earlier ones
	var chain []*ssa.BasicBlock
	for b := h.Idom(); b != nil; b = b.Idom() {
		chain = append(chain, b)
	}
	for i := len(chain) - 1; i >= 0; i-- {
		for _, in := range chain[i].Instrs {
			fc.debugName(in, vars)
		}
	}
	for _, in := range h.Instrs {
		phi, ok := in.(*ssa.Phi)
		if !ok {
			break
		}
		if phi.Comment != "" {
			vars[phi.Comment] = phiVal(phi)
		}
	}
	// the index variable of a range loop, at the loop head, is the number of elements done so far
	if cp, isRange := counterPhi(h, func(p *ssa.BasicBlock) bool { return li.body[p] }); cp != nil && isRange {
		if n := rangeIndexName(li, cp); n != "" {
			if _, taken := vars[n]; !taken {
				vars[n] = TV{T: "(+ " + phiVal(cp).T + " 1)", S: "Int", G: cp.Type()}
			}
		}
	}
	return vars
}

// ifaceEnv: environment for an interface contract as seen by an implementing
// method: self is the boxed receiver, parameters/results by the contract's names.
func (fc *FuncCtx) ifaceEnv(ic *Contract, st *State, res []TV) *Env {
	vars := map[string]TV{}
	fn := fc.fn
	recv := fc.val[fn.Params[0]]
	tid := fc.eng.typeIDTerm(fn.Params[0].Type())
	payload := recv.T
	if recv.S != "Int" {
		payload = fmt.Sprintf("(%s %s)", fc.eng.boxFn(recv.S), recv.T)
	}
	self := ic.Recv
	if self == "" {
		self = "self"
	}
	vars[self] = TV{T: fmt.Sprintf("(mk-iface %s %s)", tid, payload), S: "Iface"}
	for i, p := range fn.Params[1:] {
		n := p.Name()
		if i < len(ic.Params) {
			n = ic.Params[i]
		}
		vars[n] = fc.val[p]
	}
	for i, r := range res {
		if i < len(ic.Results) {
			vars[ic.Results[i]] = r
		}
		vars[fmt.Sprintf("result%d", i)] = r
	}
	if len(res) > 0 {
		vars["result"] = res[0]
	}
	return &Env{fc: fc, vars: vars, st: st, old: fc.s0}
}

// namesAt: the source variables visible just before instruction `at`.
func (fc *FuncCtx) namesAt(at ssa.Instruction) map[string]TV {
	vars := map[string]TV{}
	if at == nil || at.Block() == nil {
		return vars
	}
	b := at.Block()
	var chain []*ssa.BasicBlock
	for d := b.Idom(); d != nil; d = d.Idom() {
		chain = append(chain, d)
	}
	for i := len(chain) - 1; i >= 0; i-- {
		for _, in := range chain[i].Instrs {
			fc.debugName(in, vars)
		}
	}
	for _, in := range b.Instrs {
		if in == at {
			break
		}
		fc.debugName(in, vars)
	}
	return vars
}

// cellOf: the source variable is held in an Alloc of the function (some DebugRef gives its address).
func (fc *FuncCtx) cellOf(obj types.Object) bool {
	if fc.cellObjs == nil {
		fc.cellObjs = map[types.Object]bool{}
		for _, b := range fc.fn.Blocks {
			for _, in := range b.Instrs {
				if d, ok := in.(*ssa.DebugRef); ok && d.IsAddr && d.Object() != nil {
					if _, isAlloc := d.X.(*ssa.Alloc); isAlloc {
						fc.cellObjs[d.Object()] = true
					}
				}
				// a variable captured by a function literal lives in a cell named after it even when the
				// function itself only loads and stores it (no address-of debug reference)
				if a, ok := in.(*ssa.Alloc); ok && a.Comment != "" {
					if fc.cellNames == nil {
						fc.cellNames = map[string]bool{}
					}
					fc.cellNames[a.Comment] = true
				}
			}
		}
	}
	return fc.cellObjs[obj] || fc.cellNames[obj.Name()]
}

func (fc *FuncCtx) debugName(in ssa.Instruction, vars map[string]TV) {
	if phi, ok := in.(*ssa.Phi); ok {
		if tv, ok := fc.val[phi]; ok && phi.Comment != "" {
			vars[phi.Comment] = tv
		}
		return
	}
	switch d := in.(type) {
	case *ssa.DebugRef:
		id, ok := d.Expr.(interface{ String() string })
		_ = id
		obj := d.Object()
		if obj == nil {
			return
		}
		if vv, isVar := obj.(*types.Var); !isVar || vv.IsField() {
			return // a selector expression x.f refers to the field object: not a local variable
		}
		tv, ok := fc.val[d.X]
		if !ok {
			if c, isC := d.X.(*ssa.Const); isC {
				tv = fc.constTV(c)
			} else {
				return
			}
		}
		if d.IsAddr {
			if tv.L != nil {
				vars[obj.Name()] = TV{L: tv.L, G: tv.L.gt}
			}
			return
		}
		if mi, isMI := d.X.(*ssa.MakeInterface); isMI && !types.IsInterface(obj.Type()) {
			// a use of the variable in an interface position (`T{Field: x}`): go/ssa attaches the
			// converted value to the identifier; the variable itself is the value that was converted
			if inner, ok := fc.val[mi.X]; ok {
				tv = inner
			}
		}
		if cur, ok := vars[obj.Name()]; ok && cur.L != nil && cur.T == "" && fc.cellOf(obj) {
			// the variable lives in a cell (its address is taken): the name means the cell's current content,
			// not the value it was initialised with
			return
		}
		vars[obj.Name()] = tv
	case *ssa.Alloc:
		if d.Comment != "" {
			if tv, ok := fc.val[d]; ok && tv.L != nil {
				vars[d.Comment] = TV{L: tv.L, G: tv.L.gt}
				vars["&"+d.Comment] = TV{T: tv.T, S: "Int", G: d.Type()} // addr(name) in contracts
			}
		}
	}
}

// namesAt: all source variable names visible at the end of block b (for ensures
// over named results etc. we only need parameters; this is used for loop exits).
func (fc *FuncCtx) enterLoop(li *loopInfo, b *ssa.BasicBlock, pre *State, reach string) *State {
	q := fc.q
	lc := li.con
	fc.curInstr = firstReal(b)
	// 1. invariant on entry: phis take their entry values, heap is the pre-state
	entryPhi := func(phi *ssa.Phi) TV {
		var conds, vals []string
		for i, p := range b.Preds {
			if li.body[p] && b.Dominates(p) {
				continue
			}
			ec, ok := fc.edge[[2]int{p.Index, b.Index}]
			if !ok {
				continue
			}
			conds = append(conds, ec)
			vals = append(vals, fc.coerce(fc.v(phi.Edges[i]), phi.Type()).T)
		}
		term := vals[len(vals)-1]
		for i := len(vals) - 2; i >= 0; i-- {
			term = fmt.Sprintf("(ite %s %s %s)", conds[i], vals[i], term)
		}
		return TV{T: term, S: fc.eng.sorts.sortOf(phi.Type()), G: phi.Type()}
	}
	label := fmt.Sprintf("loop%d", li.ord)
	if lc == nil {
		lc = &LoopContract{}
	}
	iterOf := func(get func(*ssa.Phi) TV) string {
		cp, isRange := counterPhi(b, func(p *ssa.BasicBlock) bool { return li.body[p] })
		if cp == nil {
			return ""
		}
		if isRange {
			return "(+ " + get(cp).T + " 1)"
		}
		return get(cp).T
	}
	// implicit invariant of range-over-string loops: the iterator position is >= 0
	var strIters []ssa.Value
	for blk := range li.body {
		for _, in := range blk.Instrs {
			if nx, ok := in.(*ssa.Next); ok && nx.IsString {
				strIters = append(strIters, nx.Iter)
			}
		}
	}
	itHeap := fc.eng.regHeap("IT", "(Array Int Int)")
	for _, it := range strIters {
		if tv, ok := fc.val[it]; ok {
			fc.oblige(label+"/inv-entry", "striter", reach, fmt.Sprintf("(<= 0 (select %s %s))", pre.get(itHeap), tv.T), "string iterator position starts >= 0", nil)
		}
	}
	li.strIters = strIters
	frameInv := fc.frameInvariants(li)
	// implicit invariant of range-over-slice loops: the hidden index is >= -1
	for _, in := range b.Instrs {
		if phi, ok := in.(*ssa.Phi); ok && phi.Comment == "rangeindex" {
			fc.oblige(label+"/inv-entry", "rangeindex", reach, "(<= (- 1) "+entryPhi(phi).T+")", "range index starts at -1", nil)
			if L := rangeBound(b, phi); L != nil {
				if lv, ok := fc.val[L]; ok {
					fc.oblige(label+"/inv-entry", "rangebound", reach, fmt.Sprintf("(<= (+ %s 1) %s)", entryPhi(phi).T, lv.T), "range index bounded by the length", nil)
				}
			}
		}
	}
	{
		env := fc.envFor(pre, fc.loopNames(li, entryPhi))
		env.iter = iterOf(entryPhi)
		env.loop = li
		// definitional unfoldings are valid in every state: also available for the entry check
		for i, c := range lc.Unfold {
			var t string
			if err := catchTr(fmt.Sprintf("%s %s unfold %d", fc.fnName, label, i), func() { t = env.trBool(c.E) }); err != nil {
				panic(trErr(err.Error()))
			}
			q.assume(fmt.Sprintf("(=> %s %s)", reach, t))
		}
		for i, c := range lc.Invariants {
			var t string
			if err := catchTr(fmt.Sprintf("%s %s invariant %d", fc.fnName, label, i), func() { t = env.trBool(c.E) }); err != nil {
				panic(trErr(err.Error()))
			}
			fc.oblige(label+"/inv-entry", clauseLabel(c, i), reach, t, "invariant holds on loop entry: "+c.Src, c.Tags)
		}
		for i, f := range frameInv {
			if g := f(pre); g != "true" {
				fc.oblige(label+"/frame-entry", fmt.Sprint(i), reach, g, "frame invariant on entry", nil)
			}
		}
	}
	// 2. havoc: phis fresh, modified heaps fresh
	fc.loopMods(li)
	var st *State
	if li.modAll {
		st = fc.newState()
		fc.eng.warn("%s %s: loop body has unknown effects; all heaps havoc'd", fc.fnName, label)
	} else {
		st = fc.newState(stEdge{"true", pre})
		var names []string
		for n := range li.mods {
			names = append(names, n)
		}
		sort.Strings(names)
		for _, n := range names {
			st.havoc(n)
		}
	}
	// watermark only grows
	if li.modAll || li.mods["$wm"] {
		q.assume(fmt.Sprintf("(<= %s %s)", pre.get("$wm"), st.get("$wm")))
	}
	for _, in := range b.Instrs {
		phi, ok := in.(*ssa.Phi)
		if !ok {
			break
		}
		tv := fc.freshVal(phi)
		q.assume(fc.wf(tv.T, phi.Type()))
	}
	for _, it := range strIters {
		if tv, ok := fc.val[it]; ok {
			q.assume(fmt.Sprintf("(<= 0 (select %s %s))", st.get(itHeap), tv.T))
		}
	}
	headPhi := func(phi *ssa.Phi) TV { return fc.val[phi] }
	if cp, isRange := counterPhi(b, func(p *ssa.BasicBlock) bool { return li.body[p] }); cp != nil && !isRange {
		// a counter started at 0 and advanced by 1 only is never negative (machine overflow aside)
		q.assume("(<= 0 " + fc.val[cp].T + ")")
	}
	for _, in := range b.Instrs {
		if phi, ok := in.(*ssa.Phi); ok && phi.Comment == "rangeindex" {
			q.assume("(<= (- 1) " + fc.val[phi].T + ")")
			if L := rangeBound(b, phi); L != nil {
				if lv, ok := fc.val[L]; ok {
					q.assume(fmt.Sprintf("(<= (+ %s 1) %s)", fc.val[phi].T, lv.T))
				}
			}
		}
	}
	env := fc.envFor(st, fc.loopNames(li, headPhi))
	env.iter = iterOf(headPhi)
	env.loop = li
	for i, c := range lc.Invariants {
		var t string
		if err := catchTr(fmt.Sprintf("%s %s invariant %d", fc.fnName, label, i), func() { t = env.trBool(c.E) }); err != nil {
			panic(trErr(err.Error()))
		}
		q.assume(fmt.Sprintf("(=> %s %s)", reach, t))
	}
	for i, c := range lc.Unfold {
		var t string
		if err := catchTr(fmt.Sprintf("%s %s unfold %d", fc.fnName, label, i), func() { t = env.trBool(c.E) }); err != nil {
			panic(trErr(err.Error()))
		}
		q.assume(t)
		fc.schemaUses++
	}
	for _, f := range frameInv {
		q.assume(fmt.Sprintf("(=> %s %s)", reach, f(st)))
	}
	if lc.Decreases != nil {
		var t string
		if err := catchTr(fmt.Sprintf("%s %s decreases", fc.fnName, label), func() { t = env.tr(lc.Decreases).T }); err != nil {
			panic(trErr(err.Error()))
		}
		fc.varHead[b] = q.define(fc.pfx+label+"_variant", "Int", t)
	}
	return st
}

func firstReal(b *ssa.BasicBlock) ssa.Instruction {
	for _, in := range b.Instrs {
		if _, ok := in.(*ssa.DebugRef); ok {
			continue
		}
		if in.Pos().IsValid() {
			return in
		}
	}
	if len(b.Instrs) > 0 {
		return b.Instrs[len(b.Instrs)-1]
	}
	return nil
}

// lastCallBefore: the callee of the last non-builtin call executed before the end of block p within
// one iteration of the loop (walking up the dominator tree to the loop head). It names a back edge by
// what the iteration did last rather than by an ordinal, so that adding or removing an unrelated
// `continue` elsewhere in the loop does not rename the obligations of the other back edges.
func lastCallBefore(li *loopInfo, p *ssa.BasicBlock) string {
	for b := p; b != nil; b = b.Idom() {
		for i := len(b.Instrs) - 1; i >= 0; i-- {
			if c, ok := b.Instrs[i].(*ssa.Call); ok {
				if _, isB := c.Call.Value.(*ssa.Builtin); isB && !c.Call.IsInvoke() {
					continue
				}
				n := shortCallee(calleeName(&c.Call))
				n = strings.NewReplacer(" ", "_", "/", ".").Replace(n)
				return n
			}
		}
		if b == li.head {
			break
		}
	}
	return "top"
}

func (fc *FuncCtx) backEdgeSuffix(li *loopInfo, p *ssa.BasicBlock) string {
	d := lastCallBefore(li, p)
	n, k := 0, 0
	for _, q := range li.backs {
		if lastCallBefore(li, q) == d {
			if q == p {
				k = n
			}
			n++
		}
	}
	if n > 1 {
		return fmt.Sprintf("@after:%s.%d", d, k)
	}
	return "@after:" + d
}

// backEdge checks invariant preservation and variant decrease on edge p -> head.
func (fc *FuncCtx) backEdge(li *loopInfo, p *ssa.BasicBlock, ec string, st *State) {
	b := li.head
	lc := li.con
	if lc == nil {
		lc = &LoopContract{}
	}
	label := fmt.Sprintf("loop%d", li.ord)
	idx := -1
	for i, q := range b.Preds {
		if q == p {
			idx = i
		}
	}
	backPhi := func(phi *ssa.Phi) TV { return fc.coerce(fc.v(phi.Edges[idx]), phi.Type()) }
	env := fc.envFor(st, fc.loopNames(li, backPhi))
	env.loop = li
	if cp, isRange := counterPhi(b, func(p *ssa.BasicBlock) bool { return li.body[p] }); cp != nil {
		if isRange {
			env.iter = "(+ " + backPhi(cp).T + " 1)"
		} else {
			env.iter = backPhi(cp).T
		}
	}
	suffix := ""
	if len(li.backs) > 1 {
		suffix = fc.backEdgeSuffix(li, p)
	}
	for _, it := range li.strIters {
		if tv, ok := fc.val[it]; ok {
			fc.oblige(label+"/inv-step", "striter"+suffix, ec, fmt.Sprintf("(<= 0 (select %s %s))", st.get(fc.eng.regHeap("IT", "(Array Int Int)")), tv.T), "string iterator position stays >= 0", nil)
		}
	}
	for _, in := range b.Instrs {
		if phi, ok := in.(*ssa.Phi); ok && phi.Comment == "rangeindex" {
			fc.oblige(label+"/inv-step", "rangeindex"+suffix, ec, "(<= (- 1) "+backPhi(phi).T+")", "range index stays >= -1", nil)
			if L := rangeBound(b, phi); L != nil {
				if lv, ok := fc.val[L]; ok {
					fc.oblige(label+"/inv-step", "rangebound"+suffix, ec, fmt.Sprintf("(<= (+ %s 1) %s)", backPhi(phi).T, lv.T), "range index stays bounded by the length", nil)
				}
			}
		}
	}
	for i, c := range lc.Invariants {
		var t string
		if err := catchTr(fmt.Sprintf("%s %s invariant %d", fc.fnName, label, i), func() { t = env.trBool(c.E) }); err != nil {
			panic(trErr(err.Error()))
		}
		// a known-finding `when` speaks about the values at the end of the iteration
		fc.curEnv = fc.envFor(st, fc.namesAt(p.Instrs[len(p.Instrs)-1]))
		fc.oblige(label+"/inv-step", clauseLabel(c, i)+suffix, ec, t, "invariant preserved by the loop body: "+c.Src, c.Tags)
		fc.curEnv = nil
	}
	for i, f := range fc.frameInvariants(li) {
		if g := f(st); g != "true" {
			fc.oblige(label+"/frame-step", fmt.Sprint(i)+suffix, ec, g, "frame invariant preserved", nil)
		}
	}
	switch {
	case lc.Decreases != nil:
		var t string
		if err := catchTr(fmt.Sprintf("%s %s decreases", fc.fnName, label), func() { t = env.tr(lc.Decreases).T }); err != nil {
			panic(trErr(err.Error()))
		}
		v0 := fc.varHead[b]
		fc.oblige(label+"/variant", "decreases"+suffix, ec, fmt.Sprintf("(and (<= 0 %s) (< %s %s))", v0, t, v0), "loop variant is bounded below and strictly decreases: "+lc.DecSrc, nil)
	case lc.NoTerm:
		fc.eng.warn("%s %s: termination not claimed (decreases _)", fc.fnName, label)
	default:
		// rangeindex loops over a slice terminate by construction (bounded index); others need a measure
		if fc.isRangeIndexLoop(li) || fc.isRangeIterHead(li) || fc.isCountedUpLoop(li) {
			return // range loops over slices, strings and maps, and `for i := 0; i < n; i++` with a fixed n, terminate by construction
		}
		fc.oblige(label+"/variant", "missing"+suffix, ec, "false", "loop has no decreases clause: termination not shown", nil)
	}
}

// rangeBound: for `t = phi + 1; if t < L` in a rangeindex loop head, the SSA value L.
func rangeBound(b *ssa.BasicBlock, phi *ssa.Phi) ssa.Value {
	var inc ssa.Value
	for _, in := range b.Instrs {
		if bo, ok := in.(*ssa.BinOp); ok {
			if bo.Op == token.ADD && bo.X == phi {
				inc = bo
			}
			if bo.Op == token.LSS && inc != nil && bo.X == inc {
				return bo.Y
			}
		}
	}
	return nil
}

// isCountedUpLoop: `for i := 0; i < L; i++` where i is advanced by exactly 1 on every back edge and by nothing
// else, the loop is left when !(i < L), and L cannot change while the loop runs: it is defined outside the
// loop, or it is len(x) of a slice / string / map value x defined outside the loop (an SSA value is immutable;
// for a map, len may change, so maps are excluded).
func (fc *FuncCtx) isCountedUpLoop(li *loopInfo) bool {
	h := li.head
	cp, isRange := counterPhi(h, func(p *ssa.BasicBlock) bool { return li.body[p] })
	if cp == nil || isRange {
		return false
	}
	iff, ok := h.Instrs[len(h.Instrs)-1].(*ssa.If)
	if !ok {
		return false
	}
	cond, ok := iff.Cond.(*ssa.BinOp)
	if !ok || cond.Op != token.LSS || cond.X != ssa.Value(cp) {
		return false
	}
	// the true branch stays in the loop, the false branch leaves it
	if !li.body[h.Succs[0]] || li.body[h.Succs[1]] {
		return false
	}
	var outside func(v ssa.Value) bool
	outside = func(v ssa.Value) bool {
		switch x := v.(type) {
		case *ssa.Const, *ssa.Parameter, *ssa.FreeVar:
			return true
		case *ssa.Field:
			// a field of a struct VALUE (not through a pointer) that is itself fixed
			return !li.body[x.Block()] || outside(x.X)
		case *ssa.Extract:
			return !li.body[x.Block()] || outside(x.Tuple)
		case ssa.Instruction:
			return !li.body[x.Block()]
		}
		return false
	}
	L := cond.Y
	if outside(L) {
		return true
	}
	if call, ok := L.(*ssa.Call); ok {
		if bi, ok := call.Call.Value.(*ssa.Builtin); ok && bi.Name() == "len" && len(call.Call.Args) == 1 {
			switch call.Call.Args[0].Type().Underlying().(type) {
			case *types.Slice, *types.Basic, *types.Array:
				return outside(call.Call.Args[0])
			}
		}
	}
	return false
}

// isRangeIterHead: the loop is `for ... := range <string or map>` (its head block is the Next).
func (fc *FuncCtx) isRangeIterHead(li *loopInfo) bool {
	for _, in := range li.head.Instrs {
		if _, ok := in.(*ssa.Next); ok {
			return true
		}
	}
	return false
}

func (fc *FuncCtx) isRangeIndexLoop(li *loopInfo) bool {
	for _, in := range li.head.Instrs {
		if phi, ok := in.(*ssa.Phi); ok && phi.Comment == "rangeindex" {
			return true
		}
	}
	return false
}

// block executes the instructions of b.
func (fc *FuncCtx) block(b *ssa.BasicBlock, st *State, reach string) {
	for _, in := range b.Instrs {
		if _, ok := in.(*ssa.Phi); ok {
			continue
		}
		fc.curInstr = in
		fc.curReach = reach
		st = fc.instr(in, st, reach)
		if fc.curReach != reach {
			reach = fc.q.define(fmt.Sprintf("%sreach_b%d_c", fc.pfx, b.Index), "Bool", fc.curReach)
		}
	}
	fc.stOut[b] = st
	// terminator edges
	last := b.Instrs[len(b.Instrs)-1]
	switch t := last.(type) {
	case *ssa.If:
		c := fc.v(t.Cond).T
		fc.setEdge(b, b.Succs[0], and(reach, c), st)
		fc.setEdge(b, b.Succs[1], and(reach, not(c)), st)
	case *ssa.Jump:
		fc.setEdge(b, b.Succs[0], reach, st)
	}
}

func (fc *FuncCtx) setEdge(from, to *ssa.BasicBlock, cond string, st *State) {
	name := fc.q.define(fmt.Sprintf("%se_%d_%d", fc.pfx, from.Index, to.Index), "Bool", cond)
	if li := fc.loops[to]; li != nil && li.body[from] && to.Dominates(from) {
		fc.curInstr = from.Instrs[len(from.Instrs)-1]
		fc.backEdge(li, from, name, st)
		return
	}
	fc.edge[[2]int{from.Index, to.Index}] = name
}

// finish merges the return sites and checks the postconditions and the frame.
func (fc *FuncCtx) finish() {
	q := fc.q
	con := fc.con
	if len(fc.rets) == 0 {
		return
	}
	var conds []string
	var edges []stEdge
	for _, r := range fc.rets {
		conds = append(conds, r.cond)
		edges = append(edges, stEdge{r.cond, r.st})
	}
	exit := q.define(fc.pfx+"reach_exit", "Bool", or(conds...))
	st := fc.newState(edges...)
	nres := fc.fn.Signature.Results().Len()
	res := make([]TV, nres)
	for i := 0; i < nres; i++ {
		rt := fc.fn.Signature.Results().At(i).Type()
		term := fc.rets[len(fc.rets)-1].vals[i].T
		for k := len(fc.rets) - 2; k >= 0; k-- {
			term = fmt.Sprintf("(ite %s %s %s)", fc.rets[k].cond, fc.rets[k].vals[i].T, term)
		}
		so := fc.eng.sorts.sortOf(rt)
		n := q.define(fmt.Sprintf("%sresult%d", fc.pfx, i), so, term)
		res[i] = TV{T: n, S: so, G: rt}
	}
	fc.results, fc.exitSt, fc.exitReach = res, st, exit
	if fc.top != nil || con == nil {
		return
	}
	fc.curInstr = nil
	fc.curReach = exit
	extra := fc.resultNames(con, res)
	// named local variables whose address is taken (cells): readable in the exit state
	seenName := map[string]int{}
	for _, b := range fc.fn.Blocks {
		for _, in := range b.Instrs {
			if al, ok := in.(*ssa.Alloc); ok && al.Comment != "" {
				seenName[al.Comment]++
			}
		}
	}
	for _, b := range fc.fn.Blocks {
		for _, in := range b.Instrs {
			if al, ok := in.(*ssa.Alloc); ok && al.Comment != "" && seenName[al.Comment] == 1 {
				if tv, ok := fc.val[al]; ok && tv.L != nil {
					if _, clash := extra[al.Comment]; !clash {
						if _, isParam := fc.paramTV[al.Comment]; !isParam {
							extra[al.Comment] = TV{L: tv.L, G: tv.L.gt}
						}
					}
				}
			}
		}
	}
	env := fc.envFor(st, extra)
	for i, c := range con.UnfoldPost {
		var t string
		if err := catchTr(fmt.Sprintf("%s unfold-post %d", con.Key, i), func() { t = env.trBool(c.E) }); err != nil {
			panic(trErr(err.Error()))
		}
		q.assume(fmt.Sprintf("(=> %s %s)", exit, t))
		fc.schemaUses++
	}
	for i, c := range con.Invariants {
		var t string
		if err := catchTr(fmt.Sprintf("%s invariant %d", con.Key, i), func() { t = env.trBool(c.E) }); err != nil {
			panic(trErr(err.Error()))
		}
		o := fc.oblige("closure-inv", clauseLabel(c, i), exit, t, "invariant of the function literal is re-established: "+c.Src, c.Tags)
		o.Pos = fc.posOfFn()
	}
	// a postcondition that is the left-hand side of an `unfold-post L == R` (a folded definition
	// established for a fresh object) is proved through its definition: every conjunct of R separately
	foldDefs := map[string]Expr{}
	for _, c := range con.UnfoldPost {
		if b, ok := c.E.(EBin); ok && b.Op == "==" {
			foldDefs[b.L.String()] = b.R
		}
	}
	for i, c := range con.Ensures {
		if def, ok := foldDefs[c.E.String()]; ok {
			body := def
			if call, isCall := def.(ECall); isCall {
				if d, isDef := fc.eng.cs.Spec.Defs[call.Fn]; isDef && len(d.Params) == len(call.Args) {
					// expand the macro so that its top-level conjuncts can be split
					ne := *env
					ne.bound = map[string]TV{}
					for k, v := range env.bound {
						ne.bound[k] = v
					}
					for k, p := range d.Params {
						ne.bound[p.Name] = env.tr(call.Args[k])
					}
					for k, cj := range conjuncts(d.Body) {
						var t string
						if err := catchTr(fmt.Sprintf("%s ensures %d (definition, conjunct %d)", con.Key, i, k), func() { t = ne.trBool(cj) }); err != nil {
							panic(trErr(err.Error()))
						}
						fc.curEnv = env
						o := fc.oblige("post", fmt.Sprintf("%s#%d", clauseLabel(c, i), k), exit, t, "postcondition (by definition, conjunct "+fmt.Sprint(k)+"): "+c.Src, c.Tags)
						fc.curEnv = nil
						o.Pos = fc.posOfFn()
					}
					continue
				}
			}
			for k, cj := range conjuncts(body) {
				var t string
				if err := catchTr(fmt.Sprintf("%s ensures %d (definition, conjunct %d)", con.Key, i, k), func() { t = env.trBool(cj) }); err != nil {
					panic(trErr(err.Error()))
				}
				fc.curEnv = env
				o := fc.oblige("post", fmt.Sprintf("%s#%d", clauseLabel(c, i), k), exit, t, "postcondition (by definition, conjunct "+fmt.Sprint(k)+"): "+c.Src, c.Tags)
				fc.curEnv = nil
				o.Pos = fc.posOfFn()
			}
			continue
		}
		var t string
		if err := catchTr(fmt.Sprintf("%s ensures %d", con.Key, i), func() { t = env.trBool(c.E) }); err != nil {
			panic(trErr(err.Error()))
		}
		fc.curEnv = env
		o := fc.oblige("post", clauseLabel(c, i), exit, t, "postcondition: "+c.Src, c.Tags)
		fc.curEnv = nil
		o.Pos = fc.posOfFn()
	}
	for _, ic := range fc.ifaceCons {
		ienv := fc.ifaceEnv(ic, st, res)
		short := ic.Key[strings.LastIndex(ic.Key, "/")+1:]
		for i, c := range ic.Ensures {
			if why, ok := con.AssumedRefine[clauseLabel(c, i)]; ok {
				fc.assumedPosts[con.Key+" :: "+short+"/"+clauseLabel(c, i)+" (assumed of this implementation: "+why+")"] = true
				continue
			}
			var t string
			if err := catchTr(fmt.Sprintf("%s ensures %d (as implemented by %s)", ic.Key, i, con.Key), func() { t = ienv.trBool(c.E) }); err != nil {
				panic(trErr(err.Error()))
			}
			fc.curEnv = ienv
			o := fc.oblige("refine/"+short, clauseLabel(c, i), exit, t, "interface contract "+ic.Key+": "+c.Src, c.Tags)
			fc.curEnv = nil
			o.Pos = fc.posOfFn()
		}
	}
	if con.HasAssigns {
		fc.checkFrame(st, exit)
	}
	for i, r := range con.Ats {
		if fc.atMatched[i] == 0 {
			o := fc.oblige("at-unmatched", clauseLabel(r.C, i), "true", "false", fmt.Sprintf("`at %s %s` matches no call site (the guarded call vanished or was renamed): %s", r.Kind, r.Target, r.C.Src), r.C.Tags)
			o.Pos = fc.posOfFn()
		}
	}
	// cover: some return is reachable under the contract (vacuity guard)
	o := &Obligation{Fn: fc.fnName, Name: "cover/exit", Kind: "cover", Guard: exit, Goal: "false", Desc: "function exit reachable", Cover: true, n: len(q.items), Pos: fc.posOfFn()}
	q.obls = append(q.obls, o)
}

func (fc *FuncCtx) resultNames(con *Contract, res []TV) map[string]TV {
	extra := map[string]TV{}
	sig := fc.fn.Signature.Results()
	for i := 0; i < sig.Len(); i++ {
		if n := sig.At(i).Name(); n != "" && n != "_" {
			extra[n] = res[i]
		}
		if con != nil && i < len(con.Results) {
			extra[con.Results[i]] = res[i]
		}
		extra[fmt.Sprintf("result%d", i)] = res[i]
	}
	if len(res) >= 1 {
		extra["result"] = res[0]
	}
	return extra
}
