package main

import (
	"fmt"
	"go/token"
	"go/types"
	"strings"

	"golang.org/x/tools/go/ssa"
)

func (fc *FuncCtx) safety(class, guard, goal, desc string) {
	n := fc.ordinal(class)
	fc.oblige("safety/"+class, fmt.Sprintf("#%d", n), guard, goal, desc, nil)
}

// instr gives the semantics of one SSA instruction.
func (fc *FuncCtx) instr(in ssa.Instruction, st *State, reach string) *State {
	eng := fc.eng
	q := fc.q
	switch x := in.(type) {
	case *ssa.DebugRef:
		return st
	case *ssa.Alloc:
		el, _ := deref(x.Type())
		st = st.clone()
		wm := st.get("$wm")
		ref := q.define(fc.name(x), "Int", "(+ "+wm+" 1)")
		st.set("$wm", ref)
		l := eng.derefLoc(ref, el)
		tv := TV{T: ref, S: "Int", G: x.Type(), L: l}
		fc.val[x] = tv
		// zero-initialise
		if l.kind == locCell && strings.HasPrefix(l.heap, "E.") {
			a := el.Underlying().(*types.Array)
			h := st.get(l.heap)
			st.set(l.heap, fmt.Sprintf("(store %s %s ((as const (Array Int %s)) %s))", h, ref, eng.sorts.sortOf(a.Elem()), eng.sorts.zero(a.Elem())))
			fc.elemFrame(l.heap, h, st.get(l.heap), ref)
		} else {
			fc.storeLoc(l, st, eng.sorts.zero(el))
		}
		return st
	case *ssa.FieldAddr:
		base := fc.v(x.X)
		el, _ := deref(x.X.Type())
		info := eng.sorts.structInfoOf(el)
		if base.T != "" {
			fc.safety("nil-deref", reach, "(not (= "+base.T+" 0))", fmt.Sprintf("field access through non-nil pointer (%s)", x.X.Name()))
		}
		if info == nil {
			// opaque struct: fields are not modelled
			fc.unsupported("field access into opaque type %s", el)
		}
		bl := base.L
		if bl == nil {
			bl = &Loc{kind: locObj, ref: base.T, gt: el}
		}
		l := fc.fieldOf(bl, info, x.Field)
		fc.val[x] = TV{T: "", S: "Int", G: x.Type(), L: l}
		return st
	case *ssa.IndexAddr:
		base := fc.v(x.X)
		idx := fc.v(x.Index)
		switch t := x.X.Type().Underlying().(type) {
		case *types.Slice:
			fc.safety("index", reach, fmt.Sprintf("(and (<= 0 %s) (< %s (s-len %s)))", idx.T, idx.T, base.T), "slice index in range")
			l := &Loc{kind: locElem, heap: eng.elemHeap(t.Elem()), ref: "(s-arr " + base.T + ")", idx: fmt.Sprintf("(+ (s-off %s) %s)", base.T, idx.T), gt: t.Elem(), sl: base.T, si: idx.T}
			fc.val[x] = TV{S: "Int", G: x.Type(), L: l}
		case *types.Pointer:
			a := t.Elem().Underlying().(*types.Array)
			fc.safety("index", reach, fmt.Sprintf("(and (<= 0 %s) (< %s %d))", idx.T, idx.T, a.Len()), "array index in range")
			l := &Loc{kind: locElem, heap: eng.elemHeap(a.Elem()), ref: base.T, idx: idx.T, gt: a.Elem()}
			fc.val[x] = TV{S: "Int", G: x.Type(), L: l}
		default:
			fc.unsupported("IndexAddr on %s", x.X.Type())
		}
		return st
	case *ssa.UnOp:
		switch x.Op {
		case token.MUL:
			p := fc.v(x.X)
			l := p.L
			if l == nil {
				el, _ := deref(x.X.Type())
				fc.safety("nil-deref", reach, "(not (= "+p.T+" 0))", "load through non-nil pointer")
				l = eng.derefLoc(p.T, el)
			}
			var tv TV
			if fa, ok := x.X.(*ssa.FieldAddr); ok {
				// name the loaded value after the field: readable counterexample models
				stt := mustDeref(fa.X.Type()).Underlying().(*types.Struct)
				so := eng.sorts.sortOf(x.Type())
				n := q.define(fc.name(x)+"__"+sanitize(stt.Field(fa.Field).Name()), so, fc.loadLoc(l, st))
				tv = TV{T: n, S: so, G: x.Type()}
				fc.val[x] = tv
			} else {
				tv = fc.setVal(x, fc.loadLoc(l, st))
			}
			fc.assumeReached(fc.wf(tv.T, x.Type()))
			fc.assumeReached(fc.allocd(tv.T, x.Type(), st.get("$wm")))
			if _, ok := x.Type().Underlying().(*types.Pointer); ok {
				// loaded references are allocated (closure of the heap under the watermark is assumed)
			}
		case token.NOT:
			fc.setVal(x, not(fc.v(x.X).T))
		case token.SUB:
			fc.arith(x, "(- "+fc.v(x.X).T+")", reach)
		case token.XOR:
			fc.arith(x, "(- (- "+fc.v(x.X).T+") 1)", reach)
		default:
			fc.unsupported("unary %s", x.Op)
		}
		return st
	case *ssa.BinOp:
		fc.binop(x, reach)
		return st
	case *ssa.Store:
		p := fc.v(x.Addr)
		v := fc.coerce(fc.v(x.Val), mustDeref(x.Addr.Type()))
		l := p.L
		if l == nil {
			el, _ := deref(x.Addr.Type())
			fc.safety("nil-deref", reach, "(not (= "+p.T+" 0))", "store through non-nil pointer")
			l = eng.derefLoc(p.T, el)
		}
		st = st.clone()
		fc.storeLoc(l, st, v.T)
		return st
	case *ssa.Phi:
		return st
	case *ssa.Field:
		base := fc.v(x.X)
		info := eng.sorts.structInfoOf(x.X.Type())
		if info == nil {
			fc.unsupported("Field on opaque %s", x.X.Type())
		}
		fc.setVal(x, fmt.Sprintf("(%s %s)", info.fields[x.Field], base.T))
		return st
	case *ssa.Extract:
		t := fc.tup[x.Tuple]
		if t == nil {
			fc.unsupported("extract from unknown tuple %s", x.Tuple.Name())
		}
		fc.val[x] = t[x.Index]
		return st
	case *ssa.MakeInterface:
		v := fc.v(x.X)
		tid := eng.typeIDTerm(x.X.Type())
		var payload string
		if v.S == "Int" {
			payload = v.T
		} else {
			payload = fmt.Sprintf("(%s %s)", eng.boxFn(v.S), v.T)
		}
		fc.setVal(x, fmt.Sprintf("(mk-iface %s %s)", tid, payload))
		return st
	case *ssa.ChangeInterface:
		fc.val[x] = TV{T: fc.v(x.X).T, S: "Iface", G: x.Type()}
		return st
	case *ssa.ChangeType:
		v := fc.v(x.X)
		so := eng.sorts.sortOf(x.Type())
		if so != v.S {
			fc.unsupported("ChangeType between sorts %s and %s", v.S, so)
		}
		fc.val[x] = TV{T: v.T, S: so, G: x.Type(), L: v.L}
		return st
	case *ssa.Convert:
		fc.convert(x, st, reach)
		return st
	case *ssa.TypeAssert:
		fc.typeAssert(x, reach)
		return st
	case *ssa.Slice:
		return fc.sliceOp(x, st, reach)
	case *ssa.Index:
		base := fc.v(x.X)
		idx := fc.v(x.Index)
		switch t := x.X.Type().Underlying().(type) {
		case *types.Array:
			fc.safety("index", reach, fmt.Sprintf("(and (<= 0 %s) (< %s %d))", idx.T, idx.T, t.Len()), "array index in range")
			fc.setVal(x, fmt.Sprintf("(select %s %s)", base.T, idx.T))
		case *types.Basic: // string
			fc.safety("index", reach, fmt.Sprintf("(and (<= 0 %s) (< %s (str.len %s)))", idx.T, idx.T, base.T), "string index in range")
			fc.setVal(x, fmt.Sprintf("(str.at %s %s)", base.T, idx.T))
		default:
			fc.unsupported("Index on %s", x.X.Type())
		}
		return st
	case *ssa.Lookup:
		base := fc.v(x.X)
		idx := fc.v(x.Index)
		switch t := x.X.Type().Underlying().(type) {
		case *types.Basic: // string
			fc.safety("index", reach, fmt.Sprintf("(and (<= 0 %s) (< %s (str.len %s)))", idx.T, idx.T, base.T), "string index in range")
			fc.setVal(x, fmt.Sprintf("(str.at %s %s)", base.T, idx.T))
		case *types.Map:
			mh, mv := eng.mapHeaps(t)
			has := fmt.Sprintf("(select (select %s %s) %s)", st.get(mh), base.T, idx.T)
			// a nil map holds no key (reading it is allowed and yields the zero value)
			q.assume(fmt.Sprintf("(=> (= %s 0) (not %s))", base.T, has))
			zero := eng.sorts.zero(t.Elem())
			val := fmt.Sprintf("(ite %s (select (select %s %s) %s) %s)", has, st.get(mv), base.T, idx.T, zero)
			if x.CommaOk {
				so := eng.sorts.sortOf(t.Elem())
				v := q.define(fc.name(x)+"_v", so, val)
				ok := q.define(fc.name(x)+"_ok", "Bool", has)
				fc.tup[x] = []TV{{T: v, S: so, G: t.Elem()}, {T: ok, S: "Bool", G: types.Typ[types.Bool]}}
				fc.assumeReached(fc.wf(v, t.Elem()))
			} else {
				tv := fc.setVal(x, val)
				fc.assumeReached(fc.wf(tv.T, t.Elem()))
			}
		}
		return st
	case *ssa.MapUpdate:
		m := fc.v(x.Map)
		mt := x.Map.Type().Underlying().(*types.Map)
		k := fc.coerce(fc.v(x.Key), mt.Key())
		v := fc.coerce(fc.v(x.Value), mt.Elem())
		fc.safety("nil-map", reach, "(not (= "+m.T+" 0))", "store into non-nil map")
		mh, mv := eng.mapHeaps(mt)
		st = st.clone()
		h, vv := st.get(mh), st.get(mv)
		st.set(mh, fmt.Sprintf("(store %s %s (store (select %s %s) %s true))", h, m.T, h, m.T, k.T))
		st.set(mv, fmt.Sprintf("(store %s %s (store (select %s %s) %s %s))", vv, m.T, vv, m.T, k.T, v.T))
		return st
	case *ssa.MakeMap:
		mt := x.Type().Underlying().(*types.Map)
		st = st.clone()
		ref := q.define(fc.name(x), "Int", "(+ "+st.get("$wm")+" 1)")
		st.set("$wm", ref)
		mh, _ := eng.mapHeaps(mt)
		ks := eng.sorts.sortOf(mt.Key())
		st.set(mh, fmt.Sprintf("(store %s %s ((as const (Array %s Bool)) false))", st.get(mh), ref, ks))
		fc.val[x] = TV{T: ref, S: "Int", G: x.Type()}
		return st
	case *ssa.MakeSlice:
		sl := x.Type().Underlying().(*types.Slice)
		ln, cp := fc.v(x.Len), fc.v(x.Cap)
		fc.safety("make-len", reach, fmt.Sprintf("(and (<= 0 %s) (<= %s %s))", ln.T, ln.T, cp.T), "make([]T, len, cap) with 0 <= len <= cap")
		st = st.clone()
		ref := q.define(fc.name(x)+"_arr", "Int", "(+ "+st.get("$wm")+" 1)")
		st.set("$wm", ref)
		eh := eng.elemHeap(sl.Elem())
		ehOld := st.get(eh)
		st.set(eh, fmt.Sprintf("(store %s %s ((as const (Array Int %s)) %s))", ehOld, ref, eng.sorts.sortOf(sl.Elem()), eng.sorts.zero(sl.Elem())))
		fc.elemFrame(eh, ehOld, st.get(eh), ref)
		fc.setVal(x, fmt.Sprintf("(mk-slice %s 0 %s %s)", ref, ln.T, cp.T))
		return st
	case *ssa.MakeClosure:
		st = st.clone()
		ref := q.define(fc.name(x), "Int", "(+ "+st.get("$wm")+" 1)")
		st.set("$wm", ref)
		fc.val[x] = TV{T: ref, S: "Int", G: x.Type()}
		fc.closures[x] = x
		return st
	case *ssa.Call:
		st = fc.call(x, x.Common(), st, reach, x)
		return fc.runGhostSets(x, st, reach)
	case *ssa.Defer:
		c := x.Common()
		rec := deferRec{guard: reach, call: c, instr: x}
		for _, a := range c.Args {
			rec.args = append(rec.args, fc.v(a))
		}
		if !c.IsInvoke() {
			if _, isFn := c.Value.(*ssa.Function); !isFn {
				if _, isB := c.Value.(*ssa.Builtin); !isB {
					rec.fnv = fc.v(c.Value)
				}
			}
		} else {
			rec.fnv = fc.v(c.Value)
		}
		fc.defers = append(fc.defers, rec)
		return st
	case *ssa.RunDefers:
		cur := reach
		for i := len(fc.defers) - 1; i >= 0; i-- {
			d := fc.defers[i]
			g := and(cur, d.guard)
			fc.curReach = g
			after := fc.call(nil, d.call, st, g, d.instr)
			// control continues after the deferred call if the call was not registered on this path
			// (guard false) or if it was and the call returns (an inlined literal narrows curReach)
			ret := fc.curReach
			if ret == g {
				// the call does not narrow reachability
			} else {
				cur = fc.q.define(fmt.Sprintf("%sreach_defer_%d", fc.pfx, fc.ordinal("defer-reach")), "Bool", fmt.Sprintf("(or (and %s (not %s)) %s)", cur, d.guard, ret))
			}
			st = fc.newState(stEdge{d.guard, after}, stEdge{"true", st})
		}
		fc.curReach = cur
		return st
	case *ssa.Return:
		var vals []TV
		for i, r := range x.Results {
			vals = append(vals, fc.coerce(fc.v(r), fc.fn.Signature.Results().At(i).Type()))
		}
		fc.rets = append(fc.rets, retSite{cond: reach, vals: vals, st: st})
		return st
	case *ssa.Panic:
		if fc.expectedPanic(x) {
			return st
		}
		fc.safety("panic", reach, "false", "explicit panic is unreachable")
		return st
	case *ssa.If, *ssa.Jump:
		return st
	case *ssa.Range:
		return fc.rangeInit(x, st, reach)
	case *ssa.Next:
		return fc.rangeNext(x, st, reach)
	}
	fc.unsupported("instruction %T (%s)", in, in)
	return st
}

func (fc *FuncCtx) expectedPanic(x *ssa.Panic) bool { return false }

func mustDeref(t types.Type) types.Type {
	el, ok := deref(t)
	if !ok {
		panic("not a pointer: " + t.String())
	}
	return el
}

func (fc *FuncCtx) arith(x ssa.Value, term string, reach string) {
	tv := fc.setVal(x, term)
	if b, ok := x.Type().Underlying().(*types.Basic); ok && b.Info()&types.IsInteger != 0 {
		lo, hi := intRange(b)
		rng := fmt.Sprintf("(and (<= %s %s) (<= %s %s))", lo, tv.T, tv.T, hi)
		if fc.topCtx().checked {
			fc.safety("overflow", reach, rng, "integer arithmetic stays in range of "+b.Name())
		}
	}
}

func (fc *FuncCtx) binop(x *ssa.BinOp, reach string) {
	eng := fc.eng
	l, r := fc.v(x.X), fc.v(x.Y)
	// nil / untyped coercions
	if l.S != r.S {
		if _, ok := x.X.(*ssa.Const); ok {
			l = fc.coerce(l, x.Y.Type())
		} else if _, ok := x.Y.(*ssa.Const); ok {
			r = fc.coerce(r, x.X.Type())
		}
	}
	isStr := l.S == "Str"
	switch x.Op {
	case token.ADD:
		if isStr {
			fc.setVal(x, fmt.Sprintf("(str.cat %s %s)", l.T, r.T))
		} else {
			fc.arith(x, fmt.Sprintf("(+ %s %s)", l.T, r.T), reach)
		}
	case token.SUB:
		fc.arith(x, fmt.Sprintf("(- %s %s)", l.T, r.T), reach)
	case token.MUL:
		fc.arith(x, fmt.Sprintf("(* %s %s)", l.T, r.T), reach)
	case token.QUO:
		fc.safety("div-zero", reach, "(not (= "+r.T+" 0))", "division by non-zero")
		fc.arith(x, fmt.Sprintf("(go.div %s %s)", l.T, r.T), reach)
	case token.REM:
		fc.safety("div-zero", reach, "(not (= "+r.T+" 0))", "remainder by non-zero")
		fc.setVal(x, fmt.Sprintf("(go.mod %s %s)", l.T, r.T))
	case token.EQL, token.NEQ:
		var t string
		if l.S == "Slice" {
			// only comparison with nil is legal
			o := l
			if c, ok := x.X.(*ssa.Const); ok && c.Value == nil {
				o = r
			}
			t = fmt.Sprintf("(= (s-arr %s) 0)", o.T)
		} else {
			t = fmt.Sprintf("(= %s %s)", l.T, r.T)
		}
		if x.Op == token.NEQ {
			t = not(t)
		}
		fc.setVal(x, t)
	case token.LSS, token.LEQ, token.GTR, token.GEQ:
		op := map[token.Token]string{token.LSS: "<", token.LEQ: "<=", token.GTR: ">", token.GEQ: ">="}[x.Op]
		if isStr {
			f := eng.ufun("str.lt", []string{"Str", "Str"}, "Bool")
			var t string
			switch x.Op {
			case token.LSS:
				t = fmt.Sprintf("(%s %s %s)", f, l.T, r.T)
			case token.GTR:
				t = fmt.Sprintf("(%s %s %s)", f, r.T, l.T)
			case token.LEQ:
				t = fmt.Sprintf("(not (%s %s %s))", f, r.T, l.T)
			case token.GEQ:
				t = fmt.Sprintf("(not (%s %s %s))", f, l.T, r.T)
			}
			fc.setVal(x, t)
		} else {
			fc.setVal(x, fmt.Sprintf("(%s %s %s)", op, l.T, r.T))
		}
	case token.AND:
		if c, ok := x.Y.(*ssa.Const); ok && c.Value != nil && c.Value.ExactString() == "1" {
			fc.setVal(x, fmt.Sprintf("(mod %s 2)", l.T))
		} else {
			f := eng.ufun("bit.and", []string{"Int", "Int"}, "Int")
			tv := fc.setVal(x, fmt.Sprintf("(%s %s %s)", f, l.T, r.T))
			fc.assumeReached(fc.wf(tv.T, x.Type()))
		}
	case token.SHR:
		if c, ok := x.Y.(*ssa.Const); ok && c.Value != nil && c.Value.ExactString() == "1" {
			fc.setVal(x, fmt.Sprintf("(div %s 2)", l.T))
		} else {
			f := eng.ufun("bit.shr", []string{"Int", "Int"}, "Int")
			tv := fc.setVal(x, fmt.Sprintf("(%s %s %s)", f, l.T, r.T))
			fc.assumeReached(fc.wf(tv.T, x.Type()))
		}
	case token.SHL:
		if c, ok := x.Y.(*ssa.Const); ok && c.Value != nil && c.Value.ExactString() == "1" {
			fc.arith(x, fmt.Sprintf("(* %s 2)", l.T), reach)
		} else {
			f := eng.ufun("bit.shl", []string{"Int", "Int"}, "Int")
			tv := fc.setVal(x, fmt.Sprintf("(%s %s %s)", f, l.T, r.T))
			fc.assumeReached(fc.wf(tv.T, x.Type()))
		}
	case token.OR, token.XOR, token.AND_NOT:
		f := eng.ufun("bit."+x.Op.String(), []string{"Int", "Int"}, "Int")
		tv := fc.setVal(x, fmt.Sprintf("(%s %s %s)", f, l.T, r.T))
		fc.assumeReached(fc.wf(tv.T, x.Type()))
	default:
		fc.unsupported("binop %s", x.Op)
	}
}

func (fc *FuncCtx) convert(x *ssa.Convert, st *State, reach string) {
	eng := fc.eng
	v := fc.v(x.X)
	from, to := x.X.Type().Underlying(), x.Type().Underlying()
	fb, fIsB := from.(*types.Basic)
	tb, tIsB := to.(*types.Basic)
	switch {
	case fIsB && tIsB && fb.Info()&types.IsInteger != 0 && tb.Info()&types.IsInteger != 0:
		lo, hi := intRange(tb)
		flo, fhi := intRange(fb)
		if rangeWithin(flo, fhi, lo, hi) {
			fc.val[x] = TV{T: v.T, S: "Int", G: x.Type()}
			return
		}
		// narrowing: value preserved when in range, otherwise unconstrained within the target range
		tv := fc.freshVal(x)
		inr := fmt.Sprintf("(and (<= %s %s) (<= %s %s))", lo, v.T, v.T, hi)
		fc.q.assume(fmt.Sprintf("(=> %s (= %s %s))", inr, tv.T, v.T))
		fc.assumeReached(fc.wf(tv.T, x.Type()))
		if fc.topCtx().checked {
			fc.safety("overflow", reach, inr, "integer conversion preserves the value")
		}
	case fIsB && tIsB && fb.Info()&types.IsString != 0 && tb.Info()&types.IsString != 0:
		fc.val[x] = TV{T: v.T, S: "Str", G: x.Type()}
	case tIsB && tb.Info()&types.IsString != 0 && v.S == "Slice":
		// string(bytes)
		h := st.get(eng.byteHeap())
		fc.setVal(x, fmt.Sprintf("(bytes2str (select %s (s-arr %s)) (s-off %s) (s-len %s))", h, v.T, v.T, v.T))
	case tIsB && tb.Info()&types.IsString != 0 && v.S == "Int":
		f := eng.ufun("rune2str", []string{"Int"}, "Str")
		fc.setVal(x, fmt.Sprintf("(%s %s)", f, v.T))
	case fIsB && fb.Info()&types.IsString != 0 && eng.sorts.sortOf(x.Type()) == "Slice":
		// []byte(s): fresh array holding the bytes of s. Modelled as unconstrained fresh slice with content facts.
		tv := fc.freshVal(x)
		fc.assumeReached(fc.wf(tv.T, x.Type()))
		fc.q.assume(fmt.Sprintf("(= (s-len %s) (str.len %s))", tv.T, v.T))
		fc.eng.warn("%s: []byte(string) conversion: contents not modelled", fc.fnName)
	default:
		if eng.sorts.sortOf(x.Type()) == v.S {
			fc.val[x] = TV{T: v.T, S: v.S, G: x.Type()}
			return
		}
		fc.unsupported("convert %s -> %s", x.X.Type(), x.Type())
	}
}

func rangeWithin(flo, fhi, lo, hi string) bool {
	// compare as decimal strings of known shapes
	val := func(s string) (neg bool, d string) {
		if strings.HasPrefix(s, "(- ") {
			return true, strings.TrimSuffix(strings.TrimPrefix(s, "(- "), ")")
		}
		return false, s
	}
	less := func(a, b string) bool { // a <= b
		an, ad := val(a)
		bn, bd := val(b)
		switch {
		case an && !bn:
			return true
		case !an && bn:
			return false
		}
		cmp := 0
		if len(ad) != len(bd) {
			if len(ad) < len(bd) {
				cmp = -1
			} else {
				cmp = 1
			}
		} else {
			cmp = strings.Compare(ad, bd)
		}
		if an {
			return cmp >= 0
		}
		return cmp <= 0
	}
	return less(lo, flo) && less(fhi, hi)
}

func (fc *FuncCtx) typeAssert(x *ssa.TypeAssert, reach string) {
	eng := fc.eng
	q := fc.q
	v := fc.v(x.X)
	var ok, val string
	so := eng.sorts.sortOf(x.AssertedType)
	if _, isIface := x.AssertedType.Underlying().(*types.Interface); isIface {
		f := eng.ufun("implements_"+shortTypeName(x.AssertedType), []string{"Int"}, "Bool")
		eng.noteIfaceAssert(x.AssertedType, f)
		ok = fmt.Sprintf("(and (not (= (i-typ %s) 0)) (%s (i-typ %s)))", v.T, f, v.T)
		val = v.T
	} else {
		tid := eng.typeIDTerm(x.AssertedType)
		ok = fmt.Sprintf("(= (i-typ %s) %s)", v.T, tid)
		if so == "Int" {
			val = fmt.Sprintf("(i-val %s)", v.T)
		} else {
			val = fmt.Sprintf("(%s (i-val %s))", eng.unboxFn(so), v.T)
		}
	}
	if x.CommaOk {
		okc := q.define(fc.name(x)+"_ok", "Bool", ok)
		vc := q.define(fc.name(x)+"_v", so, fmt.Sprintf("(ite %s %s %s)", okc, val, eng.sorts.zero(x.AssertedType)))
		q.assume(fmt.Sprintf("(=> %s %s)", okc, fc.wf(vc, x.AssertedType)))
		fc.tup[x] = []TV{{T: vc, S: so, G: x.AssertedType}, {T: okc, S: "Bool", G: types.Typ[types.Bool]}}
		return
	}
	fc.safety("type-assert", reach, ok, fmt.Sprintf("type assertion to %s succeeds", x.AssertedType))
	tv := fc.setVal(x, val)
	fc.assumeReached(fc.wf(tv.T, x.AssertedType))
}

func (fc *FuncCtx) sliceOp(x *ssa.Slice, st *State, reach string) *State {
	base := fc.v(x.X)
	lo := "0"
	if x.Low != nil {
		lo = fc.v(x.Low).T
	}
	switch t := x.X.Type().Underlying().(type) {
	case *types.Slice:
		hi := fmt.Sprintf("(s-len %s)", base.T)
		if x.High != nil {
			hi = fc.v(x.High).T
		}
		mx := fmt.Sprintf("(s-cap %s)", base.T)
		if x.Max != nil {
			mx = fc.v(x.Max).T
		}
		fc.safety("slice-bounds", reach, fmt.Sprintf("(and (<= 0 %s) (<= %s %s) (<= %s %s) (<= %s (s-cap %s)))", lo, lo, hi, hi, mx, mx, base.T), "slice bounds 0 <= lo <= hi <= cap")
		// a nil slice sliced [0:0] stays nil
		tv := fc.setVal(x, fmt.Sprintf("(mk-slice (s-arr %s) (+ (s-off %s) %s) (- %s %s) (- %s %s))", base.T, base.T, lo, hi, lo, mx, lo))
		// a reslice reads the elements of the slice it was cut from (stated through the indexing function the
		// clauses use, so that a quantified fact about the elements of the one is found for the other)
		eh := fc.eng.elemHeap(t.Elem())
		ef := fc.eng.elemFn(fc.eng.sorts.sortOf(t.Elem()))
		h := st.get(eh)
		fc.q.assume(fmt.Sprintf("(forall ((k Int)) (! (= (%s %s %s k) (%s %s %s (+ k %s))) :pattern ((%s %s %s k))))", ef, h, tv.T, ef, h, base.T, lo, ef, h, tv.T))
	case *types.Basic: // string
		hi := fmt.Sprintf("(str.len %s)", base.T)
		if x.High != nil {
			hi = fc.v(x.High).T
		}
		fc.safety("slice-bounds", reach, fmt.Sprintf("(and (<= 0 %s) (<= %s %s) (<= %s (str.len %s)))", lo, lo, hi, hi, base.T), "string slice bounds 0 <= lo <= hi <= len")
		fc.setVal(x, fmt.Sprintf("(str.sub %s %s %s)", base.T, lo, hi))
	case *types.Pointer:
		a := t.Elem().Underlying().(*types.Array)
		hi := fmt.Sprint(a.Len())
		if x.High != nil {
			hi = fc.v(x.High).T
		}
		fc.safety("slice-bounds", reach, fmt.Sprintf("(and (<= 0 %s) (<= %s %s) (<= %s %d))", lo, lo, hi, hi, a.Len()), "array slice bounds")
		fc.setVal(x, fmt.Sprintf("(mk-slice %s %s (- %s %s) (- %d %s))", base.T, lo, hi, lo, a.Len(), lo))
	default:
		fc.unsupported("slice of %s", x.X.Type())
	}
	return st
}

// ---- range over string / map -------------------------------------------------------

func (fc *FuncCtx) rangeInit(x *ssa.Range, st *State, reach string) *State {
	q := fc.q
	st = st.clone()
	ref := q.define(fc.name(x), "Int", "(+ "+st.get("$wm")+" 1)")
	st.set("$wm", ref)
	it := fc.eng.regHeap("IT", "(Array Int Int)")
	st.set(it, fmt.Sprintf("(store %s %s 0)", st.get(it), ref))
	fc.val[x] = TV{T: ref, S: "Int", G: x.Type()}
	return st
}

func (fc *FuncCtx) rangeNext(x *ssa.Next, st *State, reach string) *State {
	q := fc.q
	eng := fc.eng
	it := eng.regHeap("IT", "(Array Int Int)")
	iter := fc.v(x.Iter)
	rng := x.Iter.(*ssa.Range)
	cur := fmt.Sprintf("(select %s %s)", st.get(it), iter.T)
	st = st.clone()
	if x.IsString {
		s := fc.v(rng.X)
		ok := q.define(fc.name(x)+"_ok", "Bool", fmt.Sprintf("(< %s (str.len %s))", cur, s.T))
		idx := q.define(fc.name(x)+"_k", "Int", cur)
		f := eng.ufun("str.rune", []string{"Str", "Int"}, "Int")
		w := eng.ufun("str.runelen", []string{"Str", "Int"}, "Int")
		ch := q.define(fc.name(x)+"_v", "Int", fmt.Sprintf("(%s %s %s)", f, s.T, cur))
		q.assume(fmt.Sprintf("(and (<= 0 %s) (<= %s 1114111))", ch, ch))
		q.assume(fmt.Sprintf("(and (<= 1 (%s %s %s)) (<= (%s %s %s) 4))", w, s.T, cur, w, s.T, cur))
		q.assume(fmt.Sprintf("(=> %s (<= (+ %s (%s %s %s)) (str.len %s)))", ok, cur, w, s.T, cur, s.T))
		st.set(it, fmt.Sprintf("(store %s %s (ite %s (+ %s (%s %s %s)) %s))", st.get(it), iter.T, ok, cur, w, s.T, cur, cur))
		fc.tup[x] = []TV{{T: ok, S: "Bool", G: types.Typ[types.Bool]}, {T: idx, S: "Int", G: types.Typ[types.Int]}, {T: ch, S: "Int", G: types.Typ[types.Rune]}}
		return st
	}
	// map: the iterator counts visited keys; visited set is ghost heap ITV keyed by iterator
	mt := rng.X.Type().Underlying().(*types.Map)
	m := fc.v(rng.X)
	mh, mv := eng.mapHeaps(mt)
	ks, vs := eng.sorts.sortOf(mt.Key()), eng.sorts.sortOf(mt.Elem())
	vis := eng.regHeap("ITV."+ks, "(Array Int (Array "+ks+" Bool))")
	ok := q.fresh(fc.name(x)+"_ok", "Bool")
	k := q.fresh(fc.name(x)+"_k", ks)
	hasK := fmt.Sprintf("(select (select %s %s) %s)", st.get(mh), m.T, k)
	seen := fmt.Sprintf("(select (select %s %s) %s)", st.get(vis), iter.T, k)
	q.assume(fmt.Sprintf("(=> %s (and %s (not %s)))", ok, hasK, seen))
	// exhaustion: when not ok every key has been visited
	q.assume(fmt.Sprintf("(=> (not %s) (forall ((kk %s)) (! (=> (select (select %s %s) kk) (select (select %s %s) kk)) :pattern ((select (select %s %s) kk)))))", ok, ks, st.get(mh), m.T, st.get(vis), iter.T, st.get(mh), m.T))
	v := q.define(fc.name(x)+"_v", vs, fmt.Sprintf("(select (select %s %s) %s)", st.get(mv), m.T, k))
	fc.assumeReached(fc.wf(v, mt.Elem()))
	fc.assumeReached(fc.wf(k, mt.Key()))
	vh := st.get(vis)
	st.set(vis, fmt.Sprintf("(ite %s (store %s %s (store (select %s %s) %s true)) %s)", ok, vh, iter.T, vh, iter.T, k, vh))
	st.set(it, fmt.Sprintf("(store %s %s (ite %s (+ %s 1) %s))", st.get(it), iter.T, ok, cur, cur))
	fc.tup[x] = []TV{{T: ok, S: "Bool", G: types.Typ[types.Bool]}, {T: k, S: ks, G: mt.Key()}, {T: v, S: vs, G: mt.Elem()}}
	return st
}
