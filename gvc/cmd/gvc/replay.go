package main

import (
	"bytes"
	"context"
	"encoding/json"
	"fmt"
	"os"
	"os/exec"
	"path/filepath"
	"regexp"
	"strings"
	"time"
)

// ReplayDriver says which real-code harness can confirm a failed obligation.
type ReplayDriver struct {
	Fn         string `json:"fn"`         // regexp on the function key
	Obligation string `json:"obligation"` // regexp on the obligation name
	Pkg        string `json:"pkg"`        // package dir (relative to the repo root) the harness is injected into
	File       string `json:"file"`       // harness test file under /verif/replay/
	What       string `json:"what"`
}

// tryReplay runs the harness registered for the failed obligation against the
// real code (injected with `go test -overlay`, nothing is written to the repo).
// It returns the harness report and true iff the harness made the real code
// misbehave (printed a GVC-REPLAY-VIOLATION line).
func (e *Engine) tryReplay(id, fn, obl string, v *Verdict, rec map[string]any) (any, bool) {
	if os.Getenv("GVC_NO_REPLAY") != "" {
		return nil, false
	}
	vr := verifRoot()
	var drivers []ReplayDriver
	if err := readJSON(filepath.Join(vr, "replay", "drivers.json"), &drivers); err != nil {
		return nil, false
	}
	for _, d := range drivers {
		if ok, _ := regexp.MatchString(d.Fn, fn); !ok {
			continue
		}
		if ok, _ := regexp.MatchString(d.Obligation, obl); !ok {
			continue
		}
		rep, violated := runHarness(d, id, fn, obl, v)
		rep["driver"] = d.File
		rep["what"] = d.What
		if violated {
			return rep, true
		}
		rec["replay_attempt"] = rep
	}
	return nil, false
}

func runHarness(d ReplayDriver, id, fn, obl string, v *Verdict) (map[string]any, bool) {
	rep := map[string]any{}
	tmp, err := os.MkdirTemp("", "gvc-replay-")
	if err != nil {
		rep["error"] = err.Error()
		return rep, false
	}
	defer os.RemoveAll(tmp)
	repo := repoDir()
	target := filepath.Join(repo, d.Pkg, "zz_gvc_replay_test.go")
	ov := map[string]any{"Replace": map[string]string{target: filepath.Join(verifRoot(), "replay", d.File)}}
	bs, _ := json.Marshal(ov)
	ovf := filepath.Join(tmp, "overlay.json")
	os.WriteFile(ovf, bs, 0o644)
	in := map[string]any{"property": id, "fn": fn, "obligation": obl}
	if v != nil && v.Cand != nil {
		in["model"] = v.Cand
	}
	inb, _ := json.Marshal(in)
	ctx, cancel := context.WithTimeout(context.Background(), 180*time.Second)
	defer cancel()
	cmd := exec.CommandContext(ctx, "go", "test", "-overlay", ovf, "-vet=off", "-count=1", "-timeout", "120s", "-run", "TestGvcReplay", "./"+strings.TrimPrefix(d.Pkg, "./"))
	cmd.Dir = repo
	cmd.Env = append(os.Environ(), "GOFLAGS=-mod=mod", "GOPROXY=off", "GOSUMDB=off", "GOTOOLCHAIN=local", "GVC_REPLAY_INPUT="+string(inb), "GVC_REPLAY_TMP="+tmp)
	var buf bytes.Buffer
	cmd.Stdout, cmd.Stderr = &buf, &buf
	_ = cmd.Run()
	out := buf.String()
	var viol []string
	for _, ln := range strings.Split(out, "\n") {
		if i := strings.Index(ln, "GVC-REPLAY-VIOLATION:"); i >= 0 {
			viol = append(viol, strings.TrimSpace(ln[i+len("GVC-REPLAY-VIOLATION:"):]))
		}
	}
	if len(out) > 6000 {
		out = out[len(out)-6000:]
	}
	rep["cmd"] = fmt.Sprintf("go test -overlay <%s -> %s> -vet=off -timeout 120s -run TestGvcReplay ./%s", target, d.File, d.Pkg)
	rep["violations_on_real_code"] = viol
	if len(viol) == 0 {
		rep["output_tail"] = out
	}
	return rep, len(viol) > 0
}

// thoroughExtras: (1) smoke test: every replay harness whose function family overlaps the property's
// functions is run once on the unchanged tree with the property's oracle (no obligation selected, so
// the witnesses of recorded known findings are not exercised); (2) must-fail corpus: every seeded change
// recorded in selftest.json for this property is applied to a scratch copy and must make the quick check fail.
func (e *Engine) thoroughExtras(id string, keys []string) map[string]any {
	out := map[string]any{}
	vr := verifRoot()
	var drivers []ReplayDriver
	_ = readJSON(filepath.Join(vr, "replay", "drivers.json"), &drivers)
	ran := map[string]bool{}
	var reports []string
	nh := 0
	for _, d := range drivers {
		if ran[d.File] {
			continue
		}
		hit := false
		for _, k := range keys {
			if ok, _ := regexp.MatchString(d.Fn, k); ok {
				hit = true
			}
		}
		if !hit {
			continue
		}
		ran[d.File] = true
		nh++
		rep, violated := runHarness(d, id, "", "", nil)
		if violated {
			for _, v := range rep["violations_on_real_code"].([]string) {
				reports = append(reports, d.File+": "+v)
			}
		}
	}
	out["smoke_harnesses_run"] = nh
	out["smoke_report_count"] = len(reports)
	out["smoke_reports"] = reports
	// must-fail corpus
	var st map[string][]string
	_ = readJSON(filepath.Join(vr, "selftest.json"), &st)
	var missed, detected, stale []string
	for _, seed := range st[id] {
		tmp, err := os.MkdirTemp("", "gvc-selftest-")
		if err != nil {
			continue
		}
		repo := filepath.Join(tmp, "repo")
		ok := exec.Command("rsync", "-a", "--exclude", ".git", repoDir()+"/", repo+"/").Run() == nil
		if ok {
			pc := exec.Command("patch", "-p1", "-s", "--no-backup-if-mismatch", "-i", filepath.Join(vr, "seeded", seed, "patch.diff"))
			pc.Dir = repo
			ok = pc.Run() == nil
		}
		if !ok {
			os.RemoveAll(tmp)
			// the seeded change was written against an older text of the lines it touches (a later fix or
			// refactoring moved them): it cannot be replayed on this tree; reported, not counted as a miss
			stale = append(stale, seed)
			continue
		}
		self, _ := os.Executable()
		c := exec.Command(self, "check", id, "--tier", "quick")
		c.Env = append(os.Environ(), "GVC_REPO="+repo, "GVC_OUT="+filepath.Join(tmp, "out"), "GVC_NO_REPLAY=1")
		c.Dir = vr
		err = c.Run()
		code := 0
		if ee, isExit := err.(*exec.ExitError); isExit {
			code = ee.ExitCode()
		}
		if code == 1 {
			detected = append(detected, seed)
		} else {
			missed = append(missed, seed)
		}
		os.RemoveAll(tmp)
	}
	out["selftest_stale_patch_does_not_apply"] = stale
	out["selftest_seeded_changes"] = len(st[id])
	out["selftest_detected"] = detected
	out["selftest_missed"] = missed
	return out
}
