package main

import (
	"fmt"
	"go/constant"
	"go/types"
	"sort"
	"strings"

	"golang.org/x/tools/go/ssa"
)

func (e *Engine) isRepoFn(fn *ssa.Function) bool {
	if fn == nil {
		return false
	}
	p := fn.Pkg
	if p == nil && fn.Parent() != nil {
		p = fn.Parent().Pkg
	}
	if p == nil {
		if fn.Object() != nil && fn.Object().Pkg() != nil {
			return strings.HasPrefix(fn.Object().Pkg().Path(), e.modPath)
		}
		return false
	}
	return strings.HasPrefix(p.Pkg.Path(), e.modPath)
}

func fnPkgPath(fn *ssa.Function) string {
	if fn.Pkg != nil {
		return fn.Pkg.Pkg.Path()
	}
	if fn.Object() != nil && fn.Object().Pkg() != nil {
		return fn.Object().Pkg().Path()
	}
	return ""
}

func (fc *FuncCtx) bindResults(res ssa.Value, tvs []TV) {
	if res == nil {
		return
	}
	if ci, ok := res.(ssa.CallInstruction); ok && len(tvs) > 0 {
		// calls made by an inlined helper are call sites of the function under verification as well (in
		// execution order): extracting statements into a helper does not hide them from ret(...)
		t := fc.topCtx()
		key := fc.siteKey(ci.Common())
		n := t.callSites[key]
		t.callSites[key]++
		t.siteResults[fmt.Sprintf("%s#%d", key, n)] = tvs[0]
		for k, tv := range tvs {
			t.siteResults[fmt.Sprintf("%s#%d.%d", key, n, k)] = tv
		}
	}
	switch len(tvs) {
	case 0:
	case 1:
		fc.val[res] = tvs[0]
	default:
		fc.tup[res] = tvs
	}
}

func (fc *FuncCtx) freshResults(base string, sig *types.Signature, st *State) []TV {
	var out []TV
	for i := 0; i < sig.Results().Len(); i++ {
		rt := sig.Results().At(i).Type()
		so := fc.eng.sorts.sortOf(rt)
		n := fc.q.fresh(fmt.Sprintf("%s%s_r%d", fc.pfx, base, i), so)
		fc.q.assume(fc.wf(n, rt))
		fc.q.assume(fc.allocd(n, rt, st.get("$wm")))
		out = append(out, TV{T: n, S: so, G: rt})
	}
	return out
}

func calleeName(c *ssa.CallCommon) string {
	if c.IsInvoke() {
		return c.Value.Type().String() + "." + c.Method.Name()
	}
	if f := c.StaticCallee(); f != nil {
		return f.String()
	}
	if b, ok := c.Value.(*ssa.Builtin); ok {
		return "builtin " + b.Name()
	}
	return "dynamic " + c.Value.Type().String()
}

func shortCallee(s string) string {
	s = strings.ReplaceAll(s, "github.com/uber-go/gopatch/internal/", "")
	s = strings.ReplaceAll(s, "github.com/uber-go/gopatch/", "")
	s = strings.ReplaceAll(s, "github.com/uber-go/gopatch", "main")
	return s
}

// call gives the semantics of a call instruction. res is the SSA value receiving
// the result (nil for deferred calls).
func (fc *FuncCtx) call(res ssa.Value, c *ssa.CallCommon, st *State, reach string, in ssa.Instruction) *State {
	eng := fc.eng
	var args []TV
	for _, a := range c.Args {
		args = append(args, fc.v(a))
	}
	sig := c.Signature()
	if b, ok := c.Value.(*ssa.Builtin); ok && !c.IsInvoke() {
		return fc.builtin(res, b, c, args, st, reach)
	}
	// ground hints: elements of literal variadic slices, in the elem_X form contracts use
	for _, ca := range c.Args {
		if lits := fc.varargElems(ca, st); lits != nil {
			sl := ca.Type().Underlying().(*types.Slice)
			h := st.get(eng.elemHeap(sl.Elem()))
			tv := fc.v(ca)
			for j, el := range lits {
				fc.q.assume(fmt.Sprintf("(= (%s %s %s %d) %s)", eng.elemFn(eng.sorts.sortOf(sl.Elem())), h, tv.T, j, el))
			}
		}
	}
	matches := fc.atAsserts(c, args, st, reach)
	if len(matches) > 0 {
		defer func(c *ssa.CallCommon, args []TV) {
			// ghost updates run after the call, in the post-state (set through fc.afterCall)
		}(c, args)
	}
	fc.pendingSets = matches
	if c.IsInvoke() {
		recv := fc.v(c.Value)
		key := "iface:" + c.Value.Type().String() + "." + c.Method.Name()
		fc.safety("nil-deref", reach, fmt.Sprintf("(not (= (i-typ %s) 0))", recv.T), "method call on non-nil interface "+shortCallee(key[6:]))
		con := eng.byKey[key]
		if con == nil {
			// interface embedded in another (e.g. ast.Expr.Pos is ast.Node.Pos): look up by method on any declared iface contract with same method name & underlying method
			con = eng.ifaceFallback(c)
		}
		if con != nil {
			return fc.applyContract(con, nil, sig, append([]TV{recv}, args...), true, st, reach, res, key[6:])
		}
		eng.warn("no contract for interface method %s: all heaps havoc'd at the call (in %s)", key[6:], fc.fnName)
		return fc.unknownCall(res, sig, st, key[6:])
	}
	if callee := c.StaticCallee(); callee != nil {
		key := callee.String()
		fc.errorDropped(res, callee, reach)
		// closures called directly
		con := eng.byKey[key]
		if con != nil && !con.Inline {
			return fc.applyContract(con, callee, sig, args, false, st, reach, res, key)
		}
		if eng.isRepoFn(callee) && callee.Blocks != nil {
			for _, s := range fc.stack {
				if s == callee {
					fc.safety("missing-contract", reach, "false", "recursive call to "+shortCallee(key)+" needs a contract")
					return fc.unknownCall(res, sig, st, key)
				}
			}
			if len(fc.stack) > 5 {
				fc.safety("missing-contract", reach, "false", "inlining depth exceeded at "+shortCallee(key))
				return fc.unknownCall(res, sig, st, key)
			}
			var bind []TV
			if mc, ok := c.Value.(*ssa.MakeClosure); ok {
				for _, b := range mc.Bindings {
					bind = append(bind, fc.v(b))
				}
			}
			return fc.inline(callee, con, args, st, reach, res, bind)
		}
		// dependency without a trusted contract
		if eng.cs.Spec.PurePkgs[fnPkgPath(callee)] {
			return fc.pureCall(res, key, sig, args, st)
		}
		eng.warn("no trusted contract for %s: all heaps havoc'd at the call (in %s)", key, fc.fnName)
		return fc.unknownCall(res, sig, st, key)
	}
	// dynamic call through a function value
	fv := fc.v(c.Value)
	if mc, ok := c.Value.(*ssa.MakeClosure); ok {
		_ = mc
	}
	key := "funcval:" + fc.funcValKey(c.Value)
	con := eng.byKey[key]
	if con == nil {
		if i := strings.LastIndex(key, "#"); i >= 0 {
			con = eng.byKey["funcval:"+key[i:]] // a contract keyed by the variable's name only
		}
	}
	if con != nil {
		return fc.applyContract(con, nil, sig, append([]TV{fv}, args...), true, st, reach, res, key)
	}
	eng.warn("dynamic call %s without contract: all heaps havoc'd (in %s)", key, fc.fnName)
	return fc.unknownCall(res, sig, st, key)
}

// errorDropped: an error returned by a repository function must flow somewhere
// (a result, a store, a test, an argument); a call whose error result has no
// use at all silently discards a failure.
func (fc *FuncCtx) errorDropped(res ssa.Value, callee *ssa.Function, reach string) {
	if res == nil || !fc.eng.isRepoFn(callee) || fc.top != nil {
		return
	}
	sig := callee.Signature.Results()
	errIdx := -1
	for i := 0; i < sig.Len(); i++ {
		if n, ok := sig.At(i).Type().(*types.Named); ok && n.Obj().Name() == "error" && n.Obj().Pkg() == nil {
			errIdx = i
		}
	}
	if errIdx < 0 {
		return
	}
	used := false
	refs := res.Referrers()
	if refs != nil {
		for _, r := range *refs {
			switch x := r.(type) {
			case *ssa.DebugRef:
			case *ssa.Extract:
				if x.Index == errIdx {
					if er := x.Referrers(); er != nil {
						for _, rr := range *er {
							if _, dbg := rr.(*ssa.DebugRef); !dbg {
								used = true
							}
						}
					}
				}
			default:
				if sig.Len() == 1 {
					used = true
				}
			}
		}
	}
	if !used {
		n := fc.ordinal("error-dropped")
		fc.oblige("error-dropped", fmt.Sprintf("%s#%d", shortCallee(callee.String()), n), reach, "false", "the error returned by "+shortCallee(callee.String())+" is discarded", []string{"C04", "C16", "C08"})
	}
}

// siteKey: the short callee name used in obligation names and `at call` rules.
func (fc *FuncCtx) siteKey(c *ssa.CallCommon) string {
	if c.IsInvoke() {
		return shortCallee(c.Value.Type().String() + "." + c.Method.Name())
	}
	if f := c.StaticCallee(); f != nil {
		return shortCallee(f.String())
	}
	return "funcval:" + shortCallee(fc.funcValKey(c.Value))
}

// atAsserts checks the caller's `at call` / `at effect` assertions for this site.
func (fc *FuncCtx) atAsserts(c *ssa.CallCommon, args []TV, st *State, reach string) (sets []int) {
	t := fc.topCtx()
	if t.con == nil || len(t.con.Ats) == 0 {
		return nil
	}
	if fc.top != nil && fc.con != nil && fc.con.Inline {
		// a function annotated `inline` is part of the verifier's vocabulary (accessors): its calls are not
		// sites of the caller; an uncontracted helper, in contrast, is the caller's own code moved elsewhere
		return nil
	}
	key := fc.siteKey(c)
	t.atSites[key]++
	site := t.atSites[key] - 1
	var effects []string
	var ccon *Contract
	if c.IsInvoke() {
		ccon = fc.eng.byKey["iface:"+c.Value.Type().String()+"."+c.Method.Name()]
		if ccon == nil {
			ccon = fc.eng.ifaceFallback(c)
		}
	} else if f := c.StaticCallee(); f != nil {
		ccon = fc.eng.byKey[f.String()]
	} else {
		ccon = fc.eng.byKey["funcval:"+fc.funcValKey(c.Value)]
	}
	if ccon != nil {
		effects = ccon.Effects
	}
	var env *Env
	for i, r := range t.con.Ats {
		match := false
		switch r.Kind {
		case "call":
			match = r.Target == key && (r.Site < 0 || r.Site == site) && whereMatches(r, c)
		case "effect":
			for _, ef := range effects {
				if ef == r.Target {
					match = true
				}
			}
		}
		if !match {
			continue
		}
		t.atMatched[i]++
		if r.Set != "" {
			sets = append(sets, i)
			continue
		}
		if env == nil {
			vars := t.namesAt(t.curInstr)
			if fc.top != nil {
				// inside an inlined helper: the caller's names as they stand at its call to the helper; the
				// helper's own locals are not part of the caller's contract vocabulary
			}
			all := args
			if c.IsInvoke() {
				all = append([]TV{fc.v(c.Value)}, args...)
			}
			for k, a := range all {
				vars[fmt.Sprintf("arg%d", k)] = a
			}
			env = fc.envFor(st, vars)
			// old(...) in a rule of the top function is the top function's entry, also at a site inside an
			// inlined helper
			env.old = t.s0
			// #k at a call site: the index of the current element / iteration of the innermost counted loop
			// around the call (not inside inlined helpers)
			if fc.top == nil && fc.curInstr != nil && fc.curInstr.Block() != nil {
				var inner *loopInfo
				for _, li := range fc.loopOrd {
					if li.body[fc.curInstr.Block()] && (inner == nil || len(li.body) < len(inner.body)) {
						inner = li
					}
				}
				if inner != nil {
					li := inner
					if cp, isRange := counterPhi(li.head, func(p *ssa.BasicBlock) bool { return li.body[p] }); cp != nil {
						if tv, ok := fc.val[cp]; ok {
							if isRange {
								env.iter = "(+ " + tv.T + " 1)"
							} else {
								env.iter = tv.T
							}
						}
					}
				}
			}
		}
		var tt string
		if err := catchTr(fmt.Sprintf("%s at-rule %d", t.fnName, i), func() { tt = env.trBool(r.C.E) }); err != nil {
			// the clause cannot be interpreted at this site (a name it speaks about is not in scope here:
			// the code around the guarded call was restructured): the named obligation fails, the rest of
			// the function is still verified
			o := fc.oblige(fmt.Sprintf("at@%s#%d", key, site), clauseLabel(r.C, i), reach, "false", "assertion at call to "+key+" cannot be interpreted at this site ("+err.Error()+"): "+r.C.Src, r.C.Tags)
			o.Uninterpretable = err.Error()
			continue
		}
		fc.curEnv = env
		fc.oblige(fmt.Sprintf("at@%s#%d", key, site), clauseLabel(r.C, i), reach, tt, "assertion at call to "+key+": "+r.C.Src, r.C.Tags)
		fc.curEnv = nil
	}
	return sets
}

// whereMatches: the optional `where argN is "literal"` filter of an at-rule (argument numbering as in
// the rule's clause: arg0 is the receiver of an interface method call).
func whereMatches(r AtRule, c *ssa.CallCommon) bool {
	if r.WhereArg < 0 {
		return true
	}
	k := r.WhereArg
	if c.IsInvoke() {
		k--
	}
	if k < 0 || k >= len(c.Args) {
		return false
	}
	if cst, ok := c.Args[k].(*ssa.Const); ok && cst.Value != nil && cst.Value.Kind() == constant.String {
		return constant.StringVal(cst.Value) == r.WhereLit
	}
	return false
}

// runGhostSets executes the `at call ... set g = expr` updates of the call just
// made, in its post-state (ret(...) and result names refer to this call).
func (fc *FuncCtx) runGhostSets(in ssa.Instruction, st *State, reach string) *State {
	sets := fc.pendingSets
	fc.pendingSets = nil
	if len(sets) == 0 {
		return st
	}
	t := fc.topCtx()
	vars := fc.namesAt(in)
	if ci, ok := in.(ssa.CallInstruction); ok {
		c := ci.Common()
		k := 0
		if c.IsInvoke() {
			vars["arg0"] = fc.v(c.Value)
			k = 1
		}
		for i, a := range c.Args {
			vars[fmt.Sprintf("arg%d", i+k)] = fc.v(a)
		}
	}
	if v, ok := in.(ssa.Value); ok {
		if tv, ok := fc.val[v]; ok {
			vars["result"] = tv
			vars["result0"] = tv
		}
		if tup, ok := fc.tup[v]; ok {
			for k, tv := range tup {
				vars[fmt.Sprintf("result%d", k)] = tv
			}
			vars["result"] = tup[0]
		}
	}
	st = st.clone()
	env := fc.envFor(st, vars)
	env.old = t.s0
	for _, i := range sets {
		r := t.con.Ats[i]
		if _, ok := fc.eng.cs.Spec.Ghosts[r.Set]; !ok {
			panic(trErr("at ... set: " + r.Set + " is not a ghost variable"))
		}
		var v string
		if err := catchTr(fmt.Sprintf("%s at-rule %d", t.fnName, i), func() { v = env.tr(r.C.E).T }); err != nil {
			panic(trErr(err.Error()))
		}
		cur := st.get("G." + r.Set)
		st.set("G."+r.Set, fmt.Sprintf("(ite %s %s %s)", reach, v, cur))
	}
	return st
}

// funcValKey names a function value by where it comes from: a parameter name, a
// struct field, or its named type.
func (fc *FuncCtx) funcValKey(v ssa.Value) string { return funcValKeyOf(fc.fn, v) }

func funcValKeyOf(fn *ssa.Function, v ssa.Value) string {
	if n, ok := v.Type().(*types.Named); ok {
		return n.String()
	}
	switch x := v.(type) {
	case *ssa.Parameter:
		return fn.String() + "#" + x.Name()
	case *ssa.UnOp:
		if fa, ok := x.X.(*ssa.FieldAddr); ok {
			st := mustDeref(fa.X.Type()).Underlying().(*types.Struct)
			return mustDeref(fa.X.Type()).String() + "." + st.Field(fa.Field).Name()
		}
		if al, ok := x.X.(*ssa.Alloc); ok && al.Comment != "" {
			return fn.String() + "#" + al.Comment
		}
		if fv, ok := x.X.(*ssa.FreeVar); ok {
			return fn.String() + "#" + fv.Name()
		}
	case *ssa.FreeVar:
		return fn.String() + "#" + x.Name()
	}
	return v.Type().String()
}

func (e *Engine) ifaceFallback(c *ssa.CallCommon) *Contract {
	// a method promoted from an embedded interface: try every interface contract
	// whose method object is identical.
	for key, con := range e.byKey {
		if !strings.HasPrefix(key, "iface:") || !strings.HasSuffix(key, "."+c.Method.Name()) {
			continue
		}
		tn := strings.TrimSuffix(key[6:], "."+c.Method.Name())
		t := e.lookupNamed(tn)
		if t == nil {
			continue
		}
		it, ok := t.Underlying().(*types.Interface)
		if !ok {
			continue
		}
		for i := 0; i < it.NumMethods(); i++ {
			if it.Method(i) == c.Method {
				return con
			}
		}
	}
	return nil
}

func (e *Engine) lookupNamed(name string) types.Type {
	i := strings.LastIndex(name, ".")
	if i < 0 {
		return nil
	}
	pkgPath, tn := name[:i], name[i+1:]
	for _, p := range e.prog.AllPackages() {
		if p.Pkg.Path() == pkgPath {
			if o := p.Pkg.Scope().Lookup(tn); o != nil {
				return o.Type()
			}
		}
	}
	return nil
}

func (fc *FuncCtx) pureCall(res ssa.Value, key string, sig *types.Signature, args []TV, st *State) *State {
	eng := fc.eng
	var sorts, terms []string
	for _, a := range args {
		sorts = append(sorts, a.S)
		terms = append(terms, a.T)
		if a.S == "Slice" && a.G != nil {
			if sl, ok := a.G.Underlying().(*types.Slice); ok {
				h := eng.elemHeap(sl.Elem())
				sorts = append(sorts, "(Array Int "+eng.sorts.sortOf(sl.Elem())+")")
				terms = append(terms, fmt.Sprintf("(select %s (s-arr %s))", st.get(h), a.T))
			}
		}
	}
	var out []TV
	for i := 0; i < sig.Results().Len(); i++ {
		rt := sig.Results().At(i).Type()
		so := eng.sorts.sortOf(rt)
		name := key
		if sig.Results().Len() > 1 {
			name = fmt.Sprintf("%s_%d", key, i)
		}
		f := eng.ufun("pure_"+name, sorts, so)
		t := f
		if len(terms) > 0 {
			t = "(" + f + " " + strings.Join(terms, " ") + ")"
		}
		n := fc.q.define(fc.pfx+"call_"+shortCallee(key), so, t)
		fc.q.assume(fc.wf(n, rt))
		out = append(out, TV{T: n, S: so, G: rt})
	}
	fc.bindResults(res, out)
	return st
}

func (fc *FuncCtx) unknownCall(res ssa.Value, sig *types.Signature, st *State, key string) *State {
	n := fc.havocAllState(st, nil)
	fc.q.assume(fmt.Sprintf("(<= %s %s)", st.get("$wm"), n.get("$wm")))
	fc.bindResults(res, fc.freshResults("call_"+shortCallee(key), sig, n))
	fc.topCtx().unknownCalls = append(fc.topCtx().unknownCalls, key)
	return n
}

// applyContract: assert the callee's precondition, havoc its frame, assume its
// postcondition.
func (fc *FuncCtx) applyContract(con *Contract, callee *ssa.Function, sig *types.Signature, args []TV, hasRecvArg bool, st *State, reach string, res ssa.Value, key string) *State {
	q := fc.q
	eng := fc.eng
	vars := map[string]TV{}
	// parameter names
	var names []string
	if callee != nil {
		for i, p := range callee.Params {
			n := p.Name()
			if callee.Signature.Recv() != nil {
				if i == 0 && con.Recv != "" {
					n = con.Recv
				} else if i > 0 && i-1 < len(con.Params) {
					n = con.Params[i-1]
				}
			} else if i < len(con.Params) {
				n = con.Params[i]
			}
			names = append(names, n)
		}
	} else {
		recv := con.Recv
		if recv == "" {
			recv = "self"
		}
		names = append(names, recv)
		for i := 0; i < sig.Params().Len(); i++ {
			n := sig.Params().At(i).Name()
			if i < len(con.Params) {
				n = con.Params[i]
			}
			if n == "" {
				n = fmt.Sprintf("arg%d", i)
			}
			names = append(names, n)
		}
	}
	for i, a := range args {
		if i < len(names) {
			tv := a
			if tv.G == nil {
				if callee != nil && i < len(callee.Params) {
					tv.G = callee.Params[i].Type()
				}
			}
			vars[names[i]] = tv
			if _, taken := vars[names[i]+"0"]; !taken {
				vars[names[i]+"0"] = tv // the entry value of the parameter, as the callee's own clauses may call it
			}
		}
	}
	ord := fc.ordinal("call@" + shortCallee(key))
	site := fmt.Sprintf("%s#%d", shortCallee(key), ord)
	envPre := &Env{fc: fc, vars: vars, st: st, old: st}

	if callee != nil && callee.Signature.Recv() != nil && !con.NilRecv && !con.Trusted {
		if _, ok := callee.Params[0].Type().Underlying().(*types.Pointer); ok {
			fc.oblige("pre@"+site, "recv-nonnil", reach, "(not (= "+args[0].T+" 0))", "receiver of "+shortCallee(key)+" is non-nil", nil)
		}
	}
	for i, c := range con.Requires {
		var t string
		if err := catchTr(fmt.Sprintf("%s requires %d (at call in %s)", con.Key, i, fc.fnName), func() { t = envPre.trBool(c.E) }); err != nil {
			panic(trErr(err.Error()))
		}
		kind := "pre@" + site
		if con.Trusted && (callee == nil || !eng.isRepoFn(callee)) && !strings.HasPrefix(con.Key, "iface:"+eng.modPath) && !strings.HasPrefix(con.Key, "funcval:") {
			kind = "safety/pre@" + site // a dependency's documented panic condition
		}
		fc.oblige(kind, clauseLabel(c, i), reach, t, "precondition of "+shortCallee(key)+": "+c.Src, c.Tags)
	}
	// recursion: variant must decrease
	if con.Decreases != nil && fc.topCtx().con != nil && fc.topCtx().con.Decreases != nil && fc.inlineOf == "" && eng.sameSCC(fc.fn, callee, key) {
		var t string
		if err := catchTr(con.Key+" decreases", func() { t = envPre.tr(con.Decreases).T }); err != nil {
			panic(trErr(err.Error()))
		}
		fc.oblige("rec/variant@"+site, "", reach, fmt.Sprintf("(and (<= 0 %s) (< %s %s))", fc.entryVariant(), t, fc.entryVariant()), "recursion measure decreases: "+con.DecSrc, nil)
	} else if fc.inlineOf == "" && callee != nil && eng.sameSCC(fc.fn, callee, key) && !con.Trusted {
		if fc.fn == callee {
			fc.oblige("rec/variant@"+site, "missing", reach, "false", "directly recursive call without decreases measures", nil)
		} else {
			eng.warn("termination of the mutual recursion %s -> %s (through the Matcher/Replacer interfaces: structural descent on the compiled pattern) is not shown", shortCallee(fc.fn.String()), shortCallee(key))
		}
	}
	// function literals passed to this callee: their invariants must hold now and hold again afterwards
	var closInv []func(st *State) []string
	for _, a := range con.Assigns {
		if ec, ok := a.(ECall); ok && ec.Fn == "effects" {
			if mc := fc.closureOfArg(envPre, ec.Args[0]); mc != nil {
				if ccon := eng.byKey[mc.Fn.(*ssa.Function).String()]; ccon != nil && len(ccon.Invariants) > 0 {
					mc, ccon := mc, ccon
					gen := func(s *State) []string {
						cenv := fc.closureEnv(mc, s, st)
						var out []string
						for i, c := range ccon.Invariants {
							var t string
							if err := catchTr(fmt.Sprintf("%s invariant %d", ccon.Key, i), func() { t = cenv.trBool(c.E) }); err != nil {
								panic(trErr(err.Error()))
							}
							out = append(out, t)
						}
						return out
					}
					for i, t := range gen(st) {
						fc.oblige("closure-inv@"+site, fmt.Sprint(i), reach, t, "invariant of the function literal holds before it is first run", nil)
					}
					closInv = append(closInv, gen)
				}
			}
		}
	}
	post := st
	if !con.Pure {
		post = st.clone()
		if con.HasAssigns || con.Trusted {
			for i, a := range con.Assigns {
				fc.havocTarget(envPre, a, post, fmt.Sprintf("%s_a%d", site, i))
			}
		} else if callee != nil {
			mods, all := eng.modset(callee)
			if all {
				post = fc.havocAllState(st, nil)
			} else {
				var ns []string
				for n := range mods {
					ns = append(ns, n)
				}
				sort.Strings(ns)
				for _, n := range ns {
					post.havoc(n)
				}
			}
		}
		// the callee may allocate
		oldwm := st.get("$wm")
		nwm := post.havoc("$wm")
		q.assume(fmt.Sprintf("(<= %s %s)", oldwm, nwm))
	}
	for _, gen := range closInv {
		for _, t := range gen(post) {
			q.assume(fmt.Sprintf("(=> %s %s)", reach, t))
		}
	}
	var results []TV
	if con.Pure && len(con.Ensures) == 0 {
		// deterministic function of its arguments
		return fc.pureCall(res, key, sig, args, st)
	}
	results = fc.freshResults("call_"+sanitize(site), sig, post)
	if con.Pure {
		// also deterministic
		tmp := fc.pureResultTerms(key, sig, args, st)
		for i := range results {
			q.assume(fmt.Sprintf("(= %s %s)", results[i].T, tmp[i]))
		}
	}
	if con.Fresh && len(results) > 0 {
		q.assume(fmt.Sprintf("(and (> %s %s) (<= %s %s))", results[0].T, st.get("$wm"), results[0].T, post.get("$wm")))
	}
	evars := map[string]TV{}
	for k, v := range vars {
		evars[k] = v
	}
	for i := range results {
		if i < len(con.Results) {
			evars[con.Results[i]] = results[i]
		}
		if n := sig.Results().At(i).Name(); n != "" && n != "_" {
			if _, clash := evars[n]; !clash {
				evars[n] = results[i]
			}
		}
		evars[fmt.Sprintf("result%d", i)] = results[i]
	}
	if len(results) > 0 {
		evars["result"] = results[0]
	}
	envPost := &Env{fc: fc, vars: evars, st: post, old: st}
	if len(con.Skolems) > 0 {
		envPost.skolem = map[string]*skolemInst{}
		for _, sk := range con.Skolems {
			t := fc.topCtx()
			t.nskolem++
			var as []string
			for _, a := range sk.Args {
				as = append(as, sortOfTypeName(a))
			}
			fn := eng.ufun(fmt.Sprintf("sk_%s_%s_%d", sk.Name, sanitize(shortCallee(t.fnName)), t.nskolem), as, sortOfTypeName(sk.Result))
			envPost.skolem[sk.Name] = &skolemInst{fn: fn, def: sk}
		}
	}
	for i, c := range con.AssumedEns {
		var t string
		if err := catchTr(fmt.Sprintf("%s ensures-assumed %d (at call in %s)", con.Key, i, fc.fnName), func() { t = envPost.trBool(c.E) }); err != nil {
			panic(trErr(err.Error()))
		}
		q.assume(fmt.Sprintf("(=> %s %s)", reach, t))
		fc.topCtx().assumedPosts[con.Key+": "+c.Src] = true
	}
	for i, c := range con.Ensures {
		if strings.Contains(c.Src, "ret(") {
			continue // refers to call sites inside the callee: not meaningful to callers
		}
		var t string
		if err := catchTr(fmt.Sprintf("%s ensures %d (at call in %s)", con.Key, i, fc.fnName), func() { t = envPost.trBool(c.E) }); err != nil {
			if strings.Contains(err.Error(), "unknown identifier") {
				continue // the clause speaks about a local variable of the callee: checked there, of no use here
			}
			if strings.Contains(err.Error(), "closureResult") || strings.Contains(err.Error(), "boxedSlice") {
				// the clause speaks through the contract of a function literal that this call site does not
				// offer: nothing is assumed (sound), and the evidence says so
				eng.warn("clause %q of %s not applicable at a call site in %s (%v): not assumed there", c.Src, shortCallee(con.Key), shortCallee(fc.fnName), err)
				continue
			}
			panic(trErr(err.Error()))
		}
		q.assume(fmt.Sprintf("(=> %s %s)", reach, t))
	}
	fc.bindResults(res, results)
	t := fc.topCtx()
	if con.Trusted {
		t.usedTrusted[con.Key] = true
	} else {
		t.usedContracts[con.Key] = true
	}
	return post
}

func (fc *FuncCtx) pureResultTerms(key string, sig *types.Signature, args []TV, st *State) []string {
	eng := fc.eng
	var sorts, terms []string
	for _, a := range args {
		sorts = append(sorts, a.S)
		terms = append(terms, a.T)
	}
	var out []string
	for i := 0; i < sig.Results().Len(); i++ {
		so := eng.sorts.sortOf(sig.Results().At(i).Type())
		name := key
		if sig.Results().Len() > 1 {
			name = fmt.Sprintf("%s_%d", key, i)
		}
		f := eng.ufun("pure_"+name, sorts, so)
		t := f
		if len(terms) > 0 {
			t = "(" + f + " " + strings.Join(terms, " ") + ")"
		}
		out = append(out, t)
	}
	return out
}

func (fc *FuncCtx) entryVariant() string {
	t := fc.topCtx()
	if t.entryVar != "" {
		return t.entryVar
	}
	env := t.envFor(t.s0, nil)
	var v string
	if err := catchTr(t.fnName+" decreases", func() { v = env.tr(t.con.Decreases).T }); err != nil {
		panic(trErr(err.Error()))
	}
	t.entryVar = v
	return v
}

// havocTarget makes the assigns target unconstrained in st.
func (fc *FuncCtx) havocTarget(env *Env, target Expr, st *State, base string) {
	eng := fc.eng
	if c, ok := target.(ECall); ok {
		switch c.Fn {
		case "elems":
			v := env.tr(c.Args[0])
			sl := v.G.Underlying().(*types.Slice)
			h := eng.elemHeap(sl.Elem())
			fresh := fc.q.fresh(fc.pfx+base, "(Array Int "+eng.sorts.sortOf(sl.Elem())+")")
			hOld := st.get(h)
			st.set(h, fmt.Sprintf("(store %s (s-arr %s) %s)", hOld, v.T, fresh))
			fc.elemFrame(h, hOld, st.get(h), "(s-arr "+v.T+")")
			return
		case "allof":
			// allof("F.S_x.f"): the whole heap
			st.havoc(c.Args[0].(EStr).Val)
			return
		case "group":
			for _, h := range eng.groupHeaps(c.Args[0].(EIdent).Name) {
				st.havoc(h)
			}
			return
		case "pointee":
			// pointee(p): the object behind a pointer that was boxed into an interface argument
			l, _ := fc.pointeeLoc(env, c.Args[0])
			if l == nil {
				panic(trErr(fmt.Sprintf("pointee(%s): the argument is not a boxed pointer built at the call site", c.Args[0])))
			}
			fresh := fc.q.fresh(fc.pfx+base, eng.sorts.sortOf(l.gt))
			fc.q.assume(fc.wf(fresh, l.gt))
			fc.storeLoc(l, st, fresh)
			return
		case "effects":
			// effects(fn): whatever the closure passed as fn may assign (its own contract's assigns clause)
			fc.havocClosureEffects(env, c.Args[0], st, base)
			return
		case "cell":
			// cell("C.T", ref): one cell of a named heap
			h := c.Args[0].(EStr).Val
			ref := env.tr(c.Args[1])
			fresh := fc.q.fresh(fc.pfx+base, arrayElemSort(eng.heapSort(h)))
			st.set(h, fmt.Sprintf("(store %s %s %s)", st.get(h), ref.T, fresh))
			return
		case "fields":
			// fields(p): every field of the object p points to
			v := env.tr(c.Args[0])
			el, _ := deref(v.G)
			l := v.L
			if l == nil {
				l = eng.derefLoc(v.T, el)
			}
			fresh := fc.q.fresh(fc.pfx+base, eng.sorts.sortOf(el))
			fc.storeLoc(l, st, fresh)
			return
		}
	}
	if id, ok := target.(EIdent); ok && id.Name == "everything" {
		for k := range st.h {
			delete(st.h, k)
		}
		st.parents = nil
		return
	}
	l := env.locOfExpr(target)
	if l.kind == locGhost {
		st.havoc(l.heap)
		return
	}
	fresh := fc.q.fresh(fc.pfx+base, eng.sorts.sortOf(l.gt))
	fc.q.assume(fc.wf(fresh, l.gt))
	fc.storeLoc(l, st, fresh)
}

// argSSA: the SSA value of the actual argument bound to a contract parameter name.
func (fc *FuncCtx) argSSA(env *Env, e Expr) ssa.Value {
	id, ok := e.(EIdent)
	if !ok {
		return nil
	}
	tv, ok := env.vars[id.Name]
	if !ok {
		return nil
	}
	ci, ok := fc.curInstr.(ssa.CallInstruction)
	if !ok {
		return nil
	}
	for _, a := range ci.Common().Args {
		if fc.v(a).T == tv.T {
			return a
		}
	}
	return nil
}

// pointeeLoc: for an interface argument built by MakeInterface from a pointer, the pointed-to location.
func (fc *FuncCtx) pointeeLoc(env *Env, e Expr) (*Loc, types.Type) {
	a := fc.argSSA(env, e)
	mi, ok := a.(*ssa.MakeInterface)
	if !ok {
		return nil, nil
	}
	el, ok := deref(mi.X.Type())
	if !ok {
		return nil, nil
	}
	p := fc.v(mi.X)
	if p.L != nil {
		return p.L, el
	}
	return fc.eng.derefLoc(p.T, el), el
}

// closureOfArg finds the MakeClosure behind the actual argument bound to a callee parameter name.
func (fc *FuncCtx) closureOfArg(env *Env, e Expr) *ssa.MakeClosure {
	id, ok := e.(EIdent)
	if !ok {
		return nil
	}
	tv, ok := env.vars[id.Name]
	if !ok {
		return nil
	}
	for v, mc := range fc.closures {
		if fc.val[v].T == tv.T {
			return mc
		}
	}
	// through ChangeType / MakeInterface
	for v, vt := range fc.val {
		if vt.T == tv.T {
			switch x := v.(type) {
			case *ssa.ChangeType:
				if mc, ok := x.X.(*ssa.MakeClosure); ok {
					return mc
				}
			}
		}
	}
	return nil
}

func (fc *FuncCtx) havocClosureEffects(env *Env, arg Expr, st *State, base string) {
	mc := fc.closureOfArg(env, arg)
	if mc == nil {
		panic(trErr(fmt.Sprintf("effects(%s): the argument is not a function literal of the caller", arg)))
	}
	cfn := mc.Fn.(*ssa.Function)
	ccon := fc.eng.byKey[cfn.String()]
	if ccon == nil || !ccon.HasAssigns {
		// no contract: everything the closure body may write (syntactic)
		mods, all := fc.eng.modset(cfn)
		if all {
			for k := range st.h {
				delete(st.h, k)
			}
			st.parents = nil
			return
		}
		for n := range mods {
			st.havoc(n)
		}
		return
	}
	cenv := fc.closureEnv(mc, env.st, env.old)
	for i, a := range ccon.Assigns {
		fc.havocTarget(cenv, a, st, fmt.Sprintf("%s_c%d", base, i))
	}
	fc.topCtx().usedContracts[ccon.Key] = true
}

// closureEnv: free-variable names of the closure denote the captured cells.
func (fc *FuncCtx) closureEnv(mc *ssa.MakeClosure, st, old *State) *Env {
	cfn := mc.Fn.(*ssa.Function)
	vars := map[string]TV{}
	for i, fv := range cfn.FreeVars {
		b := fc.v(mc.Bindings[i])
		el, _ := deref(fv.Type())
		l := b.L
		if l == nil {
			l = fc.eng.derefLoc(b.T, el)
		}
		vars[fv.Name()] = TV{L: l, G: el}
	}
	return &Env{fc: fc, vars: vars, st: st, old: old}
}

// inline executes the callee's body in place.
func (fc *FuncCtx) inline(callee *ssa.Function, con *Contract, args []TV, st *State, reach string, res ssa.Value, bind []TV) *State {
	t := fc.topCtx()
	t.ninline++
	sub := &FuncCtx{eng: fc.eng, fn: callee, con: con, q: fc.q, pfx: fmt.Sprintf("i%d_", t.ninline),
		val: map[ssa.Value]TV{}, tup: map[ssa.Value][]TV{}, reach: map[*ssa.BasicBlock]string{}, stOut: map[*ssa.BasicBlock]*State{},
		edge: map[[2]int]string{}, closures: map[ssa.Value]*ssa.MakeClosure{}, paramTV: map[string]TV{}, itercnt: map[*ssa.BasicBlock]string{},
		fnName: callee.String(), varHead: map[*ssa.BasicBlock]string{}, top: t, s0: st}
	sub.nstate = 0
	sub.stack = append(append([]*ssa.Function{}, fc.stack...), callee)
	ord := fc.ordinal("call@" + shortCallee(callee.String()))
	site := fmt.Sprintf("%s#%d", shortCallee(callee.String()), ord)
	if fc.inlineOf != "" {
		sub.inlineOf = fc.inlineOf + ">" + site
	} else {
		sub.inlineOf = site
	}
	for i, p := range callee.Params {
		sub.val[p] = args[i]
		sub.paramTV[p.Name()] = args[i]
	}
	if len(callee.FreeVars) > 0 {
		// a function literal called where it is built (e.g. `defer func() {...}()`): its free
		// variables are the captured cells of the caller
		if len(bind) != len(callee.FreeVars) {
			fc.unsupported("inlining closure %s", callee)
		}
		for i, fv := range callee.FreeVars {
			sub.val[fv] = bind[i]
			el, _ := deref(fv.Type())
			l := bind[i].L
			if l == nil {
				l = fc.eng.derefLoc(bind[i].T, el)
			}
			sub.paramTV[fv.Name()] = TV{L: l, G: el}
		}
	}
	// states are numbered per top-level context to keep names unique
	sub.nstate = t.nstate
	saved := fc.curInstr
	sub.run(st.clone(), reach)
	sub.finish()
	t.nstate = sub.nstate + 1
	fc.nstate = t.nstate
	fc.curInstr = saved
	t.inlined[callee.String()] = true
	if len(sub.rets) == 0 {
		// never returns: the rest of the block is unreachable
		fc.curReach = "false"
		fc.bindResults(res, fc.freshResults("inl", callee.Signature, st))
		return st
	}
	fc.curReach = sub.exitReach
	fc.bindResults(res, sub.results)
	return sub.exitSt
}

// ---- builtins ------------------------------------------------------------------------

func (fc *FuncCtx) builtin(res ssa.Value, b *ssa.Builtin, c *ssa.CallCommon, args []TV, st *State, reach string) *State {
	q := fc.q
	eng := fc.eng
	switch b.Name() {
	case "len", "cap":
		a := args[0]
		switch a.S {
		case "Str":
			fc.setVal(res, "(str.len "+a.T+")")
		case "Slice":
			fc.setVal(res, "(s-"+b.Name()+" "+a.T+")")
		default:
			if mt, ok := c.Args[0].Type().Underlying().(*types.Map); ok {
				ks, vs := eng.sorts.sortOf(mt.Key()), eng.sorts.sortOf(mt.Elem())
				mh, _ := eng.mapHeaps(mt)
				f := eng.ufun("map.len."+ks+"."+vs, []string{"(Array " + ks + " Bool)"}, "Int")
				tv := fc.setVal(res, fmt.Sprintf("(%s (select %s %s))", f, st.get(mh), a.T))
				q.assume("(<= 0 " + tv.T + ")")
			} else {
				fc.unsupported("len of %s", c.Args[0].Type())
			}
		}
		return st
	case "append":
		return fc.appendOp(res, c, args, st, reach)
	case "copy":
		// copy(dst, src): dst elements change
		dst := args[0]
		sl := c.Args[0].Type().Underlying().(*types.Slice)
		st = st.clone()
		h := eng.elemHeap(sl.Elem())
		es := eng.sorts.sortOf(sl.Elem())
		fresh := q.fresh(fc.pfx+"copy", "(Array Int "+es+")")
		old := st.get(h)
		src := args[1]
		var n string
		if src.S == "Str" {
			n = q.define(fc.pfx+"copy_n", "Int", fmt.Sprintf("(ite (<= (s-len %s) (str.len %s)) (s-len %s) (str.len %s))", dst.T, src.T, dst.T, src.T))
			q.assume(fmt.Sprintf("(forall ((k Int)) (! (=> (and (<= 0 k) (< k %s)) (= (select %s (+ (s-off %s) k)) (str.at %s k))) :pattern ((select %s (+ (s-off %s) k)))))", n, fresh, dst.T, src.T, fresh, dst.T))
		} else {
			// memmove semantics: the source is read in the state before the call
			n = q.define(fc.pfx+"copy_n", "Int", fmt.Sprintf("(ite (<= (s-len %s) (s-len %s)) (s-len %s) (s-len %s))", dst.T, src.T, dst.T, src.T))
			q.assume(fmt.Sprintf("(forall ((k Int)) (! (=> (and (<= 0 k) (< k %s)) (= (select %s (+ (s-off %s) k)) (select (select %s (s-arr %s)) (+ (s-off %s) k)))) :pattern ((select %s (+ (s-off %s) k)))))", n, fresh, dst.T, old, src.T, src.T, fresh, dst.T))
		}
		// everything outside the copied window keeps its contents
		q.assume(fmt.Sprintf("(forall ((k Int)) (! (=> (or (< k (s-off %s)) (>= k (+ (s-off %s) %s))) (= (select %s k) (select (select %s (s-arr %s)) k))) :pattern ((select %s k))))", dst.T, dst.T, n, fresh, old, dst.T, fresh))
		st.set(h, fmt.Sprintf("(ite (= %s 0) %s (store %s (s-arr %s) %s))", n, old, old, dst.T, fresh))
		fc.elemFrame(h, old, st.get(h), "(s-arr "+dst.T+")")
		if src.S != "Str" {
			// the same fact in the elem_X vocabulary contracts use
			ef := eng.elemFn(es)
			q.assume(fmt.Sprintf("(forall ((k Int)) (! (=> (and (<= 0 k) (< k %s)) (= (%s %s %s k) (%s %s %s k))) :pattern ((%s %s %s k))))", n, ef, st.get(h), dst.T, ef, old, src.T, ef, st.get(h), dst.T))
		}
		if res != nil {
			fc.setVal(res, n)
		}
		return st
	case "delete":
		m := args[0]
		mt := c.Args[0].Type().Underlying().(*types.Map)
		mh, _ := eng.mapHeaps(mt)
		st = st.clone()
		h := st.get(mh)
		st.set(mh, fmt.Sprintf("(store %s %s (store (select %s %s) %s false))", h, m.T, h, m.T, args[1].T))
		return st
	case "clear":
		// clear(m): every key is removed (clear of a slice is not used by the repository)
		if mt, ok := c.Args[0].Type().Underlying().(*types.Map); ok {
			mh, _ := eng.mapHeaps(mt)
			ks := eng.sorts.sortOf(mt.Key())
			st = st.clone()
			h := st.get(mh)
			st.set(mh, fmt.Sprintf("(store %s %s ((as const (Array %s Bool)) false))", h, args[0].T, ks))
			return st
		}
	case "ssa:wrapnilchk":
		fc.val[res] = args[0]
		return st
	case "min", "max":
		op := "<="
		if b.Name() == "max" {
			op = ">="
		}
		fc.setVal(res, fmt.Sprintf("(ite (%s %s %s) %s %s)", op, args[0].T, args[1].T, args[0].T, args[1].T))
		return st
	}
	fc.unsupported("builtin %s", b.Name())
	return st
}

// appendOp models append(s, t...) precisely: in place when capacity suffices,
// otherwise into a fresh backing array.
func (fc *FuncCtx) appendOp(res ssa.Value, c *ssa.CallCommon, args []TV, st *State, reach string) *State {
	q := fc.q
	eng := fc.eng
	s, t := args[0], args[1]
	sl := c.Args[0].Type().Underlying().(*types.Slice)
	es := eng.sorts.sortOf(sl.Elem())
	eh := eng.elemHeap(sl.Elem())
	st = st.clone()
	h := st.get(eh)
	var tarr, toff, tlen string
	if t.S == "Str" {
		// append([]byte, string...)
		tlen = "(str.len " + t.T + ")"
	} else {
		tarr, toff, tlen = fmt.Sprintf("(select %s (s-arr %s))", h, t.T), "(s-off "+t.T+")", "(s-len "+t.T+")"
	}
	n := q.define(fc.pfx+"app_n", "Int", fmt.Sprintf("(+ (s-len %s) %s)", s.T, tlen))
	inplace := q.define(fc.pfx+"app_inplace", "Bool", fmt.Sprintf("(and (<= %s (s-cap %s)) (not (= (s-arr %s) 0)))", n, s.T, s.T))
	wm := st.get("$wm")
	narr := q.define(fc.pfx+"app_arr", "Int", fmt.Sprintf("(ite %s (s-arr %s) (+ %s 1))", inplace, s.T, wm))
	noff := q.define(fc.pfx+"app_off", "Int", fmt.Sprintf("(ite %s (s-off %s) 0)", inplace, s.T))
	ncap := q.fresh(fc.pfx+"app_cap", "Int")
	q.assume(fmt.Sprintf("(ite %s (= %s (s-cap %s)) (>= %s %s))", inplace, ncap, s.T, ncap, n))
	st.set("$wm", fmt.Sprintf("(ite %s %s (+ %s 1))", inplace, wm, wm))
	// new contents of the target array
	content := q.fresh(fc.pfx+"app_content", "(Array Int "+es+")")
	old := fmt.Sprintf("(select %s (s-arr %s))", h, s.T)
	// prefix preserved
	q.assume(fmt.Sprintf("(forall ((k Int)) (! (=> (and (<= 0 k) (< k (s-len %s))) (= (select %s (+ %s k)) (select %s (+ (s-off %s) k)))) :pattern ((select %s (+ %s k)))))", s.T, content, noff, old, s.T, content, noff))
	// in place: everything outside the appended window is unchanged
	q.assume(fmt.Sprintf("(=> %s (forall ((k Int)) (! (=> (or (< k (+ %s (s-len %s))) (>= k (+ %s %s))) (= (select %s k) (select %s k))) :pattern ((select %s k)))))", inplace, noff, s.T, noff, n, content, old, content))
	// appended elements
	if lits := fc.varargElems(c.Args[1], st); lits != nil {
		for i, el := range lits {
			q.assume(fmt.Sprintf("(= (select %s (+ %s (s-len %s) %d)) %s)", content, noff, s.T, i, el))
		}
	} else if t.S == "Str" {
		q.assume(fmt.Sprintf("(forall ((k Int)) (! (=> (and (<= 0 k) (< k %s)) (= (select %s (+ %s (s-len %s) k)) (str.at %s k))) :pattern ((select %s (+ %s (s-len %s) k)))))", tlen, content, noff, s.T, t.T, content, noff, s.T))
	} else {
		q.assume(fmt.Sprintf("(forall ((k Int)) (! (=> (and (<= 0 k) (< k %s)) (= (select %s (+ %s (s-len %s) k)) (select %s (+ %s k)))) :pattern ((select %s (+ %s (s-len %s) k)))))", tlen, content, noff, s.T, tarr, toff, content, noff, s.T))
	}
	st.set(eh, fmt.Sprintf("(store %s %s %s)", h, narr, content))
	fc.elemFrame(eh, h, st.get(eh), narr)
	tv := fc.setVal(res, fmt.Sprintf("(mk-slice %s %s %s %s)", narr, noff, n, ncap))
	// the same facts in the elem_X vocabulary contracts use
	ef := eng.elemFn(es)
	nh := st.get(eh)
	q.assume(fmt.Sprintf("(forall ((k Int)) (! (=> (and (<= 0 k) (< k (s-len %s))) (= (%s %s %s k) (%s %s %s k))) :pattern ((%s %s %s k)) :pattern ((%s %s %s k))))", s.T, ef, nh, tv.T, ef, h, s.T, ef, nh, tv.T, ef, h, s.T))
	if lits := fc.varargElems(c.Args[1], st); lits != nil {
		for i, el := range lits {
			q.assume(fmt.Sprintf("(= (%s %s %s (+ (s-len %s) %d)) %s)", ef, nh, tv.T, s.T, i, el))
		}
	} else if t.S != "Str" {
		// append(s, t...): element j of the result, j >= len(s), is element j-len(s) of t
		q.assume(fmt.Sprintf("(forall ((k Int)) (! (=> (and (<= (s-len %s) k) (< k %s)) (= (%s %s %s k) (%s %s %s (- k (s-len %s))))) :pattern ((%s %s %s k))))", s.T, n, ef, nh, tv.T, ef, h, t.T, s.T, ef, nh, tv.T))
	}
	return st
}

// varargElems recognises `slice t[:]` of a `new [N]T (varargs)` whose elements
// are in the element heap, and returns their current terms.
func (fc *FuncCtx) varargElems(v ssa.Value, st *State) []string {
	sl, ok := v.(*ssa.Slice)
	if !ok || sl.Low != nil || sl.High != nil {
		return nil
	}
	al, ok := sl.X.(*ssa.Alloc)
	if !ok {
		return nil
	}
	arr, ok := mustDeref(al.Type()).Underlying().(*types.Array)
	if !ok || arr.Len() > 16 {
		return nil
	}
	ref := fc.v(al).T
	h := st.get(fc.eng.elemHeap(arr.Elem()))
	var out []string
	for i := int64(0); i < arr.Len(); i++ {
		out = append(out, fmt.Sprintf("(select (select %s %s) %d)", h, ref, i))
	}
	return out
}

// ---- modification sets -----------------------------------------------------------------

// addrHeaps: heap names a store through addr may touch (syntactic).
func (e *Engine) addrHeaps(addr ssa.Value, out map[string]bool) {
	switch x := addr.(type) {
	case *ssa.FieldAddr:
		// nested: find the root
		root := x
		for {
			if fa, ok := root.X.(*ssa.FieldAddr); ok {
				if _, isPtr := fa.Type().Underlying().(*types.Pointer); isPtr {
					if e.sorts.structInfoOf(mustDeref(fa.Type())) != nil {
						// fa yields pointer to embedded struct: root continues
						root = fa
						continue
					}
				}
			}
			break
		}
		switch rx := root.X.(type) {
		case *ssa.IndexAddr:
			e.addrHeaps(rx, out)
			return
		}
		el := mustDeref(root.X.Type())
		if info := e.sorts.structInfoOf(el); info != nil {
			out[e.fieldHeap(info, root.Field)] = true
		} else {
			out["*"] = true
		}
	case *ssa.IndexAddr:
		switch t := x.X.Type().Underlying().(type) {
		case *types.Slice:
			out[e.elemHeap(t.Elem())] = true
		case *types.Pointer:
			out[e.elemHeap(t.Elem().Underlying().(*types.Array).Elem())] = true
		}
	default:
		el, ok := deref(addr.Type())
		if !ok {
			out["*"] = true
			return
		}
		if info := e.sorts.structInfoOf(el); info != nil {
			for i := range info.fields {
				out[e.fieldHeap(info, i)] = true
			}
		} else if a, ok := el.Underlying().(*types.Array); ok {
			out[e.elemHeap(a.Elem())] = true
		} else {
			out[e.cellHeap(el)] = true
		}
	}
}

func (e *Engine) instrMods(fn *ssa.Function, in ssa.Instruction, out map[string]bool, seen map[*ssa.Function]bool) {
	switch x := in.(type) {
	case *ssa.Store:
		e.addrHeaps(x.Addr, out)
	case *ssa.MapUpdate:
		mh, mv := e.mapHeaps(x.Map.Type().Underlying().(*types.Map))
		out[mh], out[mv] = true, true
	case *ssa.Alloc:
		out["$wm"] = true
		e.addrHeaps(x, out)
	case *ssa.MakeSlice:
		out["$wm"] = true
		out[e.elemHeap(x.Type().Underlying().(*types.Slice).Elem())] = true
	case *ssa.MakeMap:
		out["$wm"] = true
		mh, _ := e.mapHeaps(x.Type().Underlying().(*types.Map))
		out[mh] = true
	case *ssa.MakeClosure:
		out["$wm"] = true
	case *ssa.Range:
		out["$wm"] = true
		out[e.regHeap("IT", "(Array Int Int)")] = true
	case *ssa.Next:
		out[e.regHeap("IT", "(Array Int Int)")] = true
		if !x.IsString {
			mt := x.Iter.(*ssa.Range).X.Type().Underlying().(*types.Map)
			ks := e.sorts.sortOf(mt.Key())
			out[e.regHeap("ITV."+ks, "(Array Int (Array "+ks+" Bool))")] = true
		}
	case ssa.CallInstruction:
		e.callMods(fn, x.Common(), out, seen)
	}
}

func (e *Engine) callMods(caller *ssa.Function, c *ssa.CallCommon, out map[string]bool, seen map[*ssa.Function]bool) {
	if b, ok := c.Value.(*ssa.Builtin); ok && !c.IsInvoke() {
		switch b.Name() {
		case "append":
			out["$wm"] = true
			out[e.elemHeap(c.Args[0].Type().Underlying().(*types.Slice).Elem())] = true
		case "copy":
			out[e.elemHeap(c.Args[0].Type().Underlying().(*types.Slice).Elem())] = true
		case "delete":
			mh, _ := e.mapHeaps(c.Args[0].Type().Underlying().(*types.Map))
			out[mh] = true
		case "clear":
			if mt, ok := c.Args[0].Type().Underlying().(*types.Map); ok {
				mh, _ := e.mapHeaps(mt)
				out[mh] = true
			}
		}
		return
	}
	var con *Contract
	var callee *ssa.Function
	if c.IsInvoke() {
		con = e.byKey["iface:"+c.Value.Type().String()+"."+c.Method.Name()]
		if con == nil {
			con = e.ifaceFallback(c)
		}
	} else if callee = c.StaticCallee(); callee != nil {
		con = e.byKey[callee.String()]
	} else {
		// dynamic call through a function value
		fk := "funcval:" + funcValKeyOf(caller, c.Value)
		cc := e.byKey[fk]
		if cc == nil {
			if i := strings.LastIndex(fk, "#"); i >= 0 {
				cc = e.byKey["funcval:"+fk[i:]]
			}
		}
		if cc != nil {
			if !cc.Pure {
				out["$wm"] = true
				e.contractMods(cc, nil, c.Signature(), out)
			}
			return
		}
		out["*"] = true
		return
	}
	if con != nil && !con.Inline {
		if con.Pure {
			return
		}
		if con.HasAssigns || con.Trusted || callee == nil {
			out["$wm"] = true
			e.contractMods(con, callee, c.Signature(), out)
			if out["pointee"] {
				delete(out, "pointee")
				for _, arg := range c.Args {
					if mi, ok := arg.(*ssa.MakeInterface); ok {
						if _, isPtr := mi.X.Type().Underlying().(*types.Pointer); isPtr {
							e.addrHeaps(mi.X, out)
						}
					}
				}
			}
			for _, a := range con.Assigns {
				if ec, ok := a.(ECall); ok && ec.Fn == "effects" {
					delete(out, "*")
					for _, arg := range c.Args {
						v := arg
						if ct, ok := v.(*ssa.ChangeType); ok {
							v = ct.X
						}
						if mc, ok := v.(*ssa.MakeClosure); ok {
							m, all := e.modsetRec(mc.Fn.(*ssa.Function), seen)
							if all {
								out["*"] = true
							}
							for k := range m {
								out[k] = true
							}
						}
					}
				}
			}
			return
		}
	}
	if callee != nil && e.isRepoFn(callee) && callee.Blocks != nil {
		m, all := e.modsetRec(callee, seen)
		if all {
			out["*"] = true
		}
		for k := range m {
			out[k] = true
		}
		return
	}
	if callee != nil && e.cs.Spec.PurePkgs[fnPkgPath(callee)] {
		return
	}
	out["*"] = true
}

// contractMods maps an assigns clause to heap names using static types only.
func (e *Engine) contractMods(con *Contract, callee *ssa.Function, sig *types.Signature, out map[string]bool) {
	// parameter name -> type
	ptypes := map[string]types.Type{}
	if callee != nil {
		for i, p := range callee.Params {
			n := p.Name()
			if callee.Signature.Recv() != nil {
				if i == 0 && con.Recv != "" {
					n = con.Recv
				} else if i > 0 && i-1 < len(con.Params) {
					n = con.Params[i-1]
				}
			} else if i < len(con.Params) {
				n = con.Params[i]
			}
			ptypes[n] = p.Type()
		}
	} else {
		for i := 0; i < sig.Params().Len(); i++ {
			n := sig.Params().At(i).Name()
			if i < len(con.Params) {
				n = con.Params[i]
			}
			ptypes[n] = sig.Params().At(i).Type()
		}
	}
	var typeOf func(x Expr) types.Type
	typeOf = func(x Expr) types.Type {
		switch y := x.(type) {
		case EIdent:
			return ptypes[y.Name]
		case ESel:
			t := typeOf(y.X)
			if t == nil {
				return nil
			}
			if el, ok := deref(t); ok {
				t = el
			}
			if info := e.sorts.structInfoOf(t); info != nil {
				if i, ok := findField(info.st, y.Field); ok {
					return info.st.Field(i).Type()
				}
			}
		case EUn:
			if t := typeOf(y.X); t != nil {
				if el, ok := deref(t); ok {
					return el
				}
			}
		case EIndex:
			if t := typeOf(y.X); t != nil {
				if sl, ok := t.Underlying().(*types.Slice); ok {
					return sl.Elem()
				}
			}
		}
		return nil
	}
	for _, a := range con.Assigns {
		switch x := a.(type) {
		case EIdent:
			if _, ok := e.cs.Spec.Ghosts[x.Name]; ok {
				out["G."+x.Name] = true
				continue
			}
			if x.Name == "everything" {
				out["*"] = true
				continue
			}
			out["*"] = true
		case ESel:
			t := typeOf(x.X)
			if t != nil {
				if el, ok := deref(t); ok {
					t = el
				}
				if info := e.sorts.structInfoOf(t); info != nil {
					if i, ok := findField(info.st, x.Field); ok {
						out[e.fieldHeap(info, i)] = true
						continue
					}
				}
			}
			out["*"] = true
		case EUn:
			t := typeOf(x.X)
			if el, ok := deref(t); ok {
				if info := e.sorts.structInfoOf(el); info != nil {
					for i := range info.fields {
						out[e.fieldHeap(info, i)] = true
					}
				} else {
					out[e.cellHeap(el)] = true
				}
				continue
			}
			out["*"] = true
		case EIndex:
			t := typeOf(x.X)
			if t != nil {
				if sl, ok := t.Underlying().(*types.Slice); ok {
					out[e.elemHeap(sl.Elem())] = true
					continue
				}
			}
			out["*"] = true
		case ECall:
			switch x.Fn {
			case "elems":
				if t := typeOf(x.Args[0]); t != nil {
					if sl, ok := t.Underlying().(*types.Slice); ok {
						out[e.elemHeap(sl.Elem())] = true
						continue
					}
				}
				out["*"] = true
			case "allof":
				out[x.Args[0].(EStr).Val] = true
			case "group":
				for _, h := range e.groupHeaps(x.Args[0].(EIdent).Name) {
					out[h] = true
				}
			case "cell":
				out[x.Args[0].(EStr).Val] = true
			case "pointee":
				out["pointee"] = true // resolved by callMods from the actual arguments
			case "effects":
				// resolved by callMods from the actual arguments
			case "fields":
				if t := typeOf(x.Args[0]); t != nil {
					if el, ok := deref(t); ok {
						if info := e.sorts.structInfoOf(el); info != nil {
							for i := range info.fields {
								out[e.fieldHeap(info, i)] = true
							}
							continue
						}
						out[e.cellHeap(el)] = true
						continue
					}
				}
				out["*"] = true
			default:
				out["*"] = true
			}
		default:
			out["*"] = true
		}
	}
}

func (e *Engine) modset(fn *ssa.Function) (map[string]bool, bool) {
	return e.modsetRec(fn, map[*ssa.Function]bool{})
}

func (e *Engine) modsetRec(fn *ssa.Function, seen map[*ssa.Function]bool) (map[string]bool, bool) {
	if m, ok := e.modCache[fn]; ok {
		return m, m["*"]
	}
	if seen[fn] {
		return map[string]bool{}, false
	}
	seen[fn] = true
	out := map[string]bool{}
	for _, b := range fn.Blocks {
		for _, in := range b.Instrs {
			e.instrMods(fn, in, out, seen)
		}
	}
	if len(seen) == 1 {
		e.modCache[fn] = out
	}
	delete(seen, fn)
	return out, out["*"]
}

func (fc *FuncCtx) loopMods(li *loopInfo) {
	if li.mods != nil {
		return
	}
	li.mods = map[string]bool{}
	for b := range li.body {
		for _, in := range b.Instrs {
			fc.eng.instrMods(fc.fn, in, li.mods, map[*ssa.Function]bool{fc.fn: true})
		}
	}
	if t := fc.topCtx(); t.con != nil && fc.top == nil {
		for _, r := range t.con.Ats {
			if r.Set == "" {
				continue
			}
			for b := range li.body {
				for _, in := range b.Instrs {
					if ci, ok := in.(ssa.CallInstruction); ok && r.Kind == "call" && fc.siteKey(ci.Common()) == r.Target && whereMatches(r, ci.Common()) {
						li.mods["G."+r.Set] = true
					}
				}
			}
		}
	}
	// deferred calls run at exits only, but a RunDefers inside a loop body would be unusual
	if li.mods["*"] {
		li.modAll = true
	}
}

// ---- frames ---------------------------------------------------------------------------

type allowedRef struct{ heap, ref string }

// frameTargets evaluates the function's assigns clause at the entry state.
func (fc *FuncCtx) frameTargets() (byHeap map[string][]string, ghosts map[string]bool, whole map[string]bool) {
	t := fc.topCtx()
	if t.frameHeap != nil {
		return t.frameHeap, t.frameGhost, t.frameWhole
	}
	byHeap, ghosts, whole = map[string][]string{}, map[string]bool{}, map[string]bool{}
	env := t.envFor(t.s0, nil)
	for _, a := range t.con.Assigns {
		if c, ok := a.(ECall); ok {
			switch c.Fn {
			case "elems":
				v := env.tr(c.Args[0])
				sl := v.G.Underlying().(*types.Slice)
				h := fc.eng.elemHeap(sl.Elem())
				byHeap[h] = append(byHeap[h], "(s-arr "+v.T+")")
				continue
			case "allof":
				whole[c.Args[0].(EStr).Val] = true
				continue
			case "group":
				for _, pfx := range fc.eng.cs.Spec.Groups[c.Args[0].(EIdent).Name] {
					whole["prefix:"+pfx] = true
				}
				continue
			case "cell":
				h := c.Args[0].(EStr).Val
				byHeap[h] = append(byHeap[h], env.tr(c.Args[1]).T)
				continue
			case "fields":
				v := env.tr(c.Args[0])
				el, _ := deref(v.G)
				l := v.L
				if l == nil {
					l = fc.eng.derefLoc(v.T, el)
				}
				for _, h := range fc.heapsOf(l) {
					byHeap[h] = append(byHeap[h], l.ref)
				}
				continue
			}
		}
		if id, ok := a.(EIdent); ok && id.Name == "everything" {
			whole["*"] = true
			continue
		}
		l := env.locOfExpr(a)
		if l.kind == locGhost {
			ghosts[l.heap] = true
			continue
		}
		for _, h := range fc.heapsOf(l) {
			byHeap[h] = append(byHeap[h], l.ref)
		}
	}
	t.frameHeap, t.frameGhost, t.frameWhole = byHeap, ghosts, whole
	return
}

func isBookkeepingHeap(n string) bool {
	return n == "$wm" || n == "IT" || strings.HasPrefix(n, "ITV.")
}

// frameFormula: every pre-existing location of heap h outside the assigns set is unchanged.
func (fc *FuncCtx) frameFormula(h string, st *State) string {
	t := fc.topCtx()
	byHeap, ghosts, whole := fc.frameTargets()
	if whole["*"] || whole[h] || isBookkeepingHeap(h) {
		return "true"
	}
	for k := range whole {
		if strings.HasPrefix(k, "prefix:") && strings.HasPrefix(h, k[7:]) {
			return "true"
		}
	}
	if strings.HasPrefix(h, "G.") {
		if ghosts[h] {
			return "true"
		}
		return fmt.Sprintf("(= %s %s)", st.get(h), t.s0.get(h))
	}
	var excl []string
	for _, r := range byHeap[h] {
		excl = append(excl, fmt.Sprintf("(not (= r %s))", r))
	}
	cur, old := st.get(h), t.s0.get(h)
	if cur == old {
		return "true"
	}
	cond := and(append([]string{"(< 0 r)", fmt.Sprintf("(<= r %s)", t.s0.get("$wm"))}, excl...)...)
	return fmt.Sprintf("(forall ((r Int)) (! (=> %s (= (select %s r) (select %s r))) :pattern ((select %s r))))", cond, cur, old, cur)
}

func (fc *FuncCtx) frameInvariants(li *loopInfo) []func(st *State) string {
	t := fc.topCtx()
	if t.con == nil || !t.con.HasAssigns || fc.top != nil {
		return nil
	}
	fc.loopMods(li)
	if li.modAll {
		return nil
	}
	var names []string
	for n := range li.mods {
		if !isBookkeepingHeap(n) {
			names = append(names, n)
		}
	}
	sort.Strings(names)
	var out []func(st *State) string
	for _, n := range names {
		n := n
		out = append(out, func(st *State) string { return fc.frameFormula(n, st) })
	}
	return out
}

func (fc *FuncCtx) checkFrame(st *State, exit string) {
	mods, all := fc.eng.modset(fc.fn)
	_, _, whole := fc.frameTargets()
	if all && !whole["*"] {
		o := fc.oblige("frame", "unknown-effects", exit, "false", "function calls code with unknown effects; assigns clause cannot be checked", nil)
		o.Pos = fc.posOfFn()
		return
	}
	var names []string
	for _, r := range fc.topCtx().con.Ats {
		if r.Set != "" {
			mods["G."+r.Set] = true
		}
	}
	for n := range mods {
		if !isBookkeepingHeap(n) {
			names = append(names, n)
		}
	}
	sort.Strings(names)
	for _, n := range names {
		f := fc.frameFormula(n, st)
		if f == "true" {
			continue
		}
		o := fc.oblige("frame", n, exit, f, "only the declared locations of "+n+" are modified", nil)
		o.Pos = fc.posOfFn()
	}
}

// sameSCC: is the callee (or interface method) mutually recursive with fn?
func (e *Engine) sameSCC(fn, callee *ssa.Function, key string) bool {
	if e.scc == nil {
		e.buildSCC()
	}
	a := e.scc[fn.String()]
	if callee != nil {
		b, ok := e.scc[callee.String()]
		return ok && a == b && (fn == callee || e.sccSize[a] > 1)
	}
	// interface method: recursive if any implementation is in our SCC
	if strings.Contains(key, ".") {
		for _, impl := range e.implsOf(key) {
			if b, ok := e.scc[impl.String()]; ok && b == a {
				return true
			}
		}
	}
	return false
}
