package main

import (
	"fmt"
	"os"
	"path/filepath"
	"sort"
	"strings"
	"sync"
	"time"

	"golang.org/x/tools/go/ssa"
)

// FuncResult is the outcome of verifying one function.
type FuncResult struct {
	Fn       string
	Err      error
	Obls     []*Obligation
	Verdicts []Verdict
	Ctx      *FuncCtx
	Query    *Query
	Secs     float64
	Skipped  bool
}

func (e *Engine) axiomTerms() ([]string, error) {
	// axioms are closed formulas: translate in an empty environment
	fc := &FuncCtx{eng: e, q: newQuery(), val: map[ssa.Value]TV{}, paramTV: map[string]TV{}}
	fc.s0 = fc.newState()
	env := &Env{fc: fc, vars: map[string]TV{}, st: fc.s0, old: fc.s0}
	var out []string
	for i, a := range e.cs.Spec.Axioms {
		var t string
		if err := catchTr(fmt.Sprintf("axiom %d (%s)", i, a.Src), func() { t = env.trBool(a.E) }); err != nil {
			return nil, err
		}
		out = append(out, t)
	}
	return out, nil
}

// generate produces the obligations of every listed function (no solving).
func (e *Engine) generate(keys []string) []*FuncResult {
	var out []*FuncResult
	for _, k := range keys {
		fn := e.funcs[k]
		r := &FuncResult{Fn: k}
		if fn == nil {
			r.Err = fmt.Errorf("function %s not found in the repository", k)
			out = append(out, r)
			continue
		}
		con := e.byKey[k]
		if con != nil && con.Trusted {
			// an assumed (API-level) summary: its body is not verified; listed as an assumption
			r.Skipped = true
			out = append(out, r)
			continue
		}
		t0 := time.Now()
		q, fc, err := e.verifyFunction(fn, con)
		r.Secs = time.Since(t0).Seconds()
		r.Err = err
		if err == nil {
			r.Obls, r.Ctx, r.Query = q.obls, fc, q
		}
		out = append(out, r)
	}
	return out
}

// queryText renders obligation o of q as a complete SMT-LIB script.
func (e *Engine) queryText(prelude string, q *Query, o *Obligation) string {
	var sb strings.Builder
	sb.WriteString(prelude)
	for i, it := range q.items[:o.n] {
		if q.skip[i] {
			continue // the fact of an obligation this check does not claim (see cmdCheck)
		}
		sb.WriteString(it)
		sb.WriteByte('\n')
	}
	sb.WriteString("(assert " + o.Guard + ")\n")
	sb.WriteString("(assert (not " + o.Goal + "))\n")
	sb.WriteString("(check-sat)\n")
	return sb.String()
}

type job struct {
	r *FuncResult
	i int
}

// solveAll discharges every obligation with the solver race, in parallel.
func (e *Engine) solveAll(results []*FuncResult, timeoutS int, workers int, keepDir string) error {
	ax, err := e.axiomTerms()
	if err != nil {
		return err
	}
	// the prelude depends on everything registered during generation
	prelude := e.globalPrelude(append(ax, e.ifaceFacts()...))
	tmp, err := os.MkdirTemp("", "gvc-vc-")
	if err != nil {
		return err
	}
	defer os.RemoveAll(tmp)
	var jobs []job
	for _, r := range results {
		r.Verdicts = make([]Verdict, len(r.Obls))
		for i := range r.Obls {
			jobs = append(jobs, job{r, i})
		}
	}
	ch := make(chan job)
	var wg sync.WaitGroup
	for w := 0; w < workers; w++ {
		wg.Add(1)
		go func() {
			defer wg.Done()
			for j := range ch {
				o := j.r.Obls[j.i]
				text := e.queryText(prelude, j.r.Query, o)
				base := fmt.Sprintf("q%p_%d", j.r, j.i)
				var v Verdict
				if o.Cover {
					// vacuity guards only need "not unsat": one solver, short limit
					r := runSolver(solvers[0], tmp, base, text, 2)
					v = Verdict{Answer: r.Answer, By: r.Solver, Secs: r.Secs, Results: []SolverResult{r}}
					if v.Answer == "timeout" || v.Answer == "error" {
						v.Answer = "unknown"
					}
				} else {
					v = race(tmp, base, text, timeoutS, true)
				}
				if o.Cover {
					// vacuity guard: must NOT be unsat
					switch v.Answer {
					case "unsat":
						v.Answer = "vacuous"
					case "sat", "unknown":
						v.Answer = "covered"
					}
				}
				if !o.Cover && !o.Known && v.Answer != "unsat" {
					if cm := candidateModel(tmp, base, text, 5); cm != nil {
						// keep the readable part: parameters, named loads, results
						v.Cand = map[string]string{}
						for k, val := range cm {
							if strings.HasPrefix(k, "reach_") || strings.HasPrefix(k, "e_") || strings.Contains(k, "_wm_") || strings.HasPrefix(k, "app_") || strings.HasPrefix(k, "i") && strings.Contains(k, "_reach") {
								continue
							}
							v.Cand[k] = val
						}
					}
				}
				j.r.Verdicts[j.i] = v
				if keepDir != "" && ((v.Answer != "unsat" && v.Answer != "covered") || os.Getenv("GVC_KEEP_ALL") != "") {
					os.MkdirAll(keepDir, 0o755)
					os.WriteFile(filepath.Join(keepDir, sanitize(shortCallee(o.Fn)+"__"+o.Name)+".smt2"), []byte(text), 0o644)
				}
			}
		}()
	}
	for _, j := range jobs {
		ch <- j
	}
	close(ch)
	wg.Wait()
	return nil
}

func main() {
	if len(os.Args) < 2 {
		fmt.Fprintln(os.Stderr, "usage: gvc verify|check|list ...")
		os.Exit(2)
	}
	switch os.Args[1] {
	case "verify":
		os.Exit(cmdVerify(os.Args[2:]))
	case "check":
		os.Exit(cmdCheck(os.Args[2:]))
	case "ssa":
		os.Exit(cmdSSA(os.Args[2:]))
	case "replay":
		os.Exit(cmdReplay(os.Args[2:]))
	default:
		fmt.Fprintln(os.Stderr, "unknown command", os.Args[1])
		os.Exit(2)
	}
}

func cmdSSA(args []string) int {
	e, err := loadEngine()
	if err != nil {
		fmt.Fprintln(os.Stderr, err)
		return 2
	}
	var keys []string
	for k := range e.funcs {
		keys = append(keys, k)
	}
	sort.Strings(keys)
	for _, k := range keys {
		for _, a := range args {
			if strings.Contains(k, a) {
				e.funcs[k].WriteTo(os.Stdout)
			}
		}
	}
	return 0
}

// cmdVerify: debugging entry: verify functions whose key contains any argument.
func cmdVerify(args []string) int {
	e, err := loadEngine()
	if err != nil {
		fmt.Fprintln(os.Stderr, err)
		return 2
	}
	for _, m := range e.missing {
		fmt.Println("MISSING", m)
	}
	keep := ""
	verbose := false
	var pats []string
	for _, a := range args {
		switch {
		case strings.HasPrefix(a, "--keep="):
			keep = strings.TrimPrefix(a, "--keep=")
		case a == "-v":
			verbose = true
		default:
			pats = append(pats, a)
		}
	}
	var keys []string
	for k := range e.funcs {
		for _, a := range pats {
			if strings.Contains(k, a) {
				keys = append(keys, k)
				break
			}
		}
	}
	sort.Strings(keys)
	res := e.generate(keys)
	if err := e.solveAll(res, 10, 16, keep); err != nil {
		fmt.Fprintln(os.Stderr, err)
		return 2
	}
	bad := 0
	for _, r := range res {
		if r.Err != nil {
			fmt.Printf("ERROR %s: %v\n", shortCallee(r.Fn), r.Err)
			bad++
			continue
		}
		for i, o := range r.Obls {
			v := r.Verdicts[i]
			ok := v.Answer == "unsat" || v.Answer == "covered"
			if !ok {
				bad++
			}
			if !ok || verbose {
				fmt.Printf("%-8s %s :: %s  [%s %.2fs] %s  (%s)\n", v.Answer, shortCallee(r.Fn), o.Name, v.By, v.Secs, o.Pos, o.Desc)
				if v.Answer == "sat" && verbose {
					fmt.Println(v.Model)
				}
			}
		}
		fmt.Printf("---- %s: %d obligations\n", shortCallee(r.Fn), len(r.Obls))
	}
	for _, w := range e.warns {
		fmt.Println("WARN", w)
	}
	if bad > 0 {
		return 1
	}
	return 0
}
