package main

import (
	"fmt"
	"go/types"
	"strings"

	"golang.org/x/tools/go/ssa"
)

// Env is the context in which a contract expression is translated to SMT.
type Env struct {
	fc    *FuncCtx
	vars  map[string]TV
	st    *State // state for heap reads
	old   *State // state for old(...)
	bound map[string]TV
	iter  string // term for #k, "" if none
	loop  *loopInfo // the loop whose invariant / unfold is being translated (nil elsewhere): visited(k)
	skolem map[string]*skolemInst // per-call-site function symbols of the contract being applied
}

type skolemInst struct {
	fn  string
	def *SpecFun
}

type trErr string

func (env *Env) fail(f string, a ...any) { panic(trErr(fmt.Sprintf(f, a...))) }

func (env *Env) with(st *State) *Env {
	n := *env
	n.st = st
	return &n
}

func sortOfTypeName(n string) string {
	switch n {
	case "int", "ref", "Int":
		return "Int"
	case "bool", "Bool":
		return "Bool"
	case "string", "Str":
		return "Str"
	}
	return n
}

// trBool translates and demands sort Bool.
func (env *Env) trBool(e Expr) string {
	v := env.tr(e)
	if v.S != "Bool" {
		env.fail("expected Bool, got %s in %s", v.S, e)
	}
	return v.T
}

func deref(t types.Type) (types.Type, bool) {
	if t == nil {
		return nil, false
	}
	if p, ok := t.Underlying().(*types.Pointer); ok {
		return p.Elem(), true
	}
	return nil, false
}

func (env *Env) nilFor(other TV) TV {
	switch other.S {
	case "Iface":
		return TV{T: "iface-nil", S: "Iface"}
	case "Slice":
		return TV{T: "(mk-slice 0 0 0 0)", S: "Slice"}
	case "Int":
		return TV{T: "0", S: "Int"}
	}
	return TV{T: "zero_" + other.S, S: other.S}
}

// tr translates an expression; values read from the heap are well-formed for
// their Go type (a fact about every real heap), which is recorded for ground terms.
func (env *Env) tr(e Expr) TV {
	v := env.tr0(e)
	switch e.(type) {
	case ESel, EIndex, EUn:
		if v.G != nil && v.T != "" && !strings.Contains(v.T, "q_") && env.fc.q != nil {
			if w := env.fc.wf(v.T, v.G); w != "true" {
				if env.fc.wfSeen == nil {
					env.fc.wfSeen = map[string]bool{}
				}
				// ... of every heap that really arises: the state of a block that is not reached is still a
				// term, and a fact about it would constrain the values it was built from on the paths that
				// bypass the block (making them vacuous), so the fact is guarded by the current reach
				g := env.fc.curReach
				if !env.fc.wfSeen[g+"|"+w] {
					env.fc.wfSeen[g+"|"+w] = true
					env.fc.assumeReached(w)
				}
			}
		}
	}
	return v
}

func (env *Env) tr0(e Expr) TV {
	fc := env.fc
	eng := fc.eng
	switch x := e.(type) {
	case EInt:
		return TV{T: x.Val, S: "Int"}
	case EBool:
		return TV{T: fmt.Sprint(x.Val), S: "Bool"}
	case EStr:
		return TV{T: eng.strLit(x.Val), S: "Str"}
	case ENil:
		return TV{T: "0", S: "Nil"}
	case EIdent:
		if v, ok := env.bound[x.Name]; ok {
			return v
		}
		if x.Name == "#k" {
			if env.iter == "" {
				env.fail("#k used outside a counted loop")
			}
			return TV{T: env.iter, S: "Int"}
		}
		if v, ok := env.vars[x.Name]; ok {
			if v.T == "" && v.L != nil {
				// address-taken variable: read the cell in the current state
				return TV{T: fc.loadLoc(v.L, env.st), S: eng.sorts.sortOf(v.L.gt), G: v.L.gt}
			}
			return v
		}
		if x.Name == "wm" {
			return TV{T: env.st.get("$wm"), S: "Int"}
		}
		if so, ok := eng.cs.Spec.Ghosts[x.Name]; ok {
			return TV{T: env.st.get("G." + x.Name), S: so}
		}
		if sf, ok := eng.cs.Spec.Funs[x.Name]; ok && len(sf.Args) == 0 {
			return TV{T: x.Name, S: sf.Result}
		}
		if id, ok := eng.typeConst(x.Name); ok {
			return TV{T: id, S: "Int"}
		}
		if strings.HasPrefix(x.Name, "zero_") {
			so := strings.TrimPrefix(x.Name, "zero_")
			eng.sorts.extra[so] = true
			return TV{T: x.Name, S: so}
		}
		env.fail("unknown identifier %q", x.Name)
	case EUn:
		switch x.Op {
		case "!":
			return TV{T: "(not " + env.trBool(x.X) + ")", S: "Bool"}
		case "-":
			v := env.tr(x.X)
			return TV{T: "(- " + v.T + ")", S: "Int"}
		case "*":
			v := env.tr(x.X)
			el, ok := deref(v.G)
			if !ok {
				env.fail("cannot dereference %s", x.X)
			}
			l := v.L
			if l == nil {
				l = eng.derefLoc(v.T, el)
			}
			return TV{T: fc.loadLoc(l, env.st), S: eng.sorts.sortOf(el), G: el}
		}
	case EBin:
		switch x.Op {
		case "&&", "||", "==>", "<==>":
			l, r := env.trBool(x.L), env.trBool(x.R)
			op := map[string]string{"&&": "and", "||": "or", "==>": "=>", "<==>": "="}[x.Op]
			return TV{T: fmt.Sprintf("(%s %s %s)", op, l, r), S: "Bool"}
		case "==", "!=":
			l, r := env.tr(x.L), env.tr(x.R)
			if l.S == "Nil" && r.S != "Nil" {
				l = env.nilFor(r)
			}
			if r.S == "Nil" && l.S != "Nil" {
				r = env.nilFor(l)
			}
			var t string
			if l.S == "Slice" && (isNilExpr(x.L) || isNilExpr(x.R)) {
				o := l
				if isNilExpr(x.L) {
					o = r
				}
				t = fmt.Sprintf("(= (s-arr %s) 0)", o.T)
			} else {
				if l.S != r.S && l.S != "Nil" {
					env.fail("sort mismatch %s vs %s in %s", l.S, r.S, e)
				}
				t = fmt.Sprintf("(= %s %s)", l.T, r.T)
			}
			if x.Op == "!=" {
				t = "(not " + t + ")"
			}
			return TV{T: t, S: "Bool"}
		case "<", "<=", ">", ">=":
			l, r := env.tr(x.L), env.tr(x.R)
			if l.S == "Str" {
				// the same uninterpreted strict order the code's own comparisons are translated to
				f := eng.ufun("str.lt", []string{"Str", "Str"}, "Bool")
				switch x.Op {
				case "<":
					return TV{T: fmt.Sprintf("(%s %s %s)", f, l.T, r.T), S: "Bool"}
				case ">":
					return TV{T: fmt.Sprintf("(%s %s %s)", f, r.T, l.T), S: "Bool"}
				case "<=":
					return TV{T: fmt.Sprintf("(not (%s %s %s))", f, r.T, l.T), S: "Bool"}
				default:
					return TV{T: fmt.Sprintf("(not (%s %s %s))", f, l.T, r.T), S: "Bool"}
				}
			}
			return TV{T: fmt.Sprintf("(%s %s %s)", x.Op, l.T, r.T), S: "Bool"}
		case "+", "-", "*":
			l, r := env.tr(x.L), env.tr(x.R)
			if l.S == "Str" && x.Op == "+" {
				return TV{T: fmt.Sprintf("(str.cat %s %s)", l.T, r.T), S: "Str"}
			}
			return TV{T: fmt.Sprintf("(%s %s %s)", x.Op, l.T, r.T), S: "Int", G: l.G}
		case "/":
			l, r := env.tr(x.L), env.tr(x.R)
			return TV{T: fmt.Sprintf("(go.div %s %s)", l.T, r.T), S: "Int"}
		case "%":
			l, r := env.tr(x.L), env.tr(x.R)
			return TV{T: fmt.Sprintf("(go.mod %s %s)", l.T, r.T), S: "Int"}
		}
	case ESel:
		v := env.tr(x.X)
		return env.selField(v, x.Field, e)
	case EIndex:
		v := env.tr(x.X)
		i := env.tr(x.I)
		switch {
		case v.S == "Str":
			return TV{T: fmt.Sprintf("(str.at %s %s)", v.T, i.T), S: "Int"}
		case v.S == "Slice":
			sl, ok := v.G.Underlying().(*types.Slice)
			if !ok {
				env.fail("index of slice without Go type in %s", e)
			}
			h := env.st.get(eng.elemHeap(sl.Elem()))
			return TV{T: fmt.Sprintf("(%s %s %s %s)", eng.elemFn(eng.sorts.sortOf(sl.Elem())), h, v.T, i.T), S: eng.sorts.sortOf(sl.Elem()), G: sl.Elem()}
		case strings.HasPrefix(v.S, "(Array "):
			es := arrayElemSort(v.S)
			var g types.Type
			if v.G != nil {
				if a, ok := v.G.Underlying().(*types.Array); ok {
					g = a.Elem()
				}
			}
			return TV{T: fmt.Sprintf("(select %s %s)", v.T, i.T), S: es, G: g}
		case v.G != nil:
			if m, ok := v.G.Underlying().(*types.Map); ok {
				_, mv := eng.mapHeaps(m)
				return TV{T: fmt.Sprintf("(select (select %s %s) %s)", env.st.get(mv), v.T, i.T), S: eng.sorts.sortOf(m.Elem()), G: m.Elem()}
			}
		}
		env.fail("cannot index %s (sort %s)", x.X, v.S)
	case ESlice:
		v := env.tr(x.X)
		lo := "0"
		if x.Lo != nil {
			lo = env.tr(x.Lo).T
		}
		switch v.S {
		case "Str":
			hi := fmt.Sprintf("(str.len %s)", v.T)
			if x.Hi != nil {
				hi = env.tr(x.Hi).T
			}
			return TV{T: fmt.Sprintf("(str.sub %s %s %s)", v.T, lo, hi), S: "Str"}
		case "Slice":
			hi := fmt.Sprintf("(s-len %s)", v.T)
			if x.Hi != nil {
				hi = env.tr(x.Hi).T
			}
			return TV{T: fmt.Sprintf("(mk-slice (s-arr %s) (+ (s-off %s) %s) (- %s %s) (- (s-cap %s) %s))", v.T, v.T, lo, hi, lo, v.T, lo), S: "Slice", G: v.G}
		}
		env.fail("cannot slice %s", x.X)
	case EQuant:
		nb := map[string]TV{}
		for k, v := range env.bound {
			nb[k] = v
		}
		var decl []string
		var guards []string
		for _, qv := range x.Vars {
			so := sortOfTypeName(qv.Type)
			name := "q_" + qv.Name
			nb[qv.Name] = TV{T: name, S: so}
			decl = append(decl, fmt.Sprintf("(%s %s)", name, so))
			_ = guards
		}
		ne := *env
		ne.bound = nb
		body := ne.trBool(x.Body)
		var pats []string
		for _, tr := range x.Triggers {
			var ts []string
			for _, t := range tr {
				ts = append(ts, ne.tr(t).T)
			}
			pats = append(pats, ":pattern ("+strings.Join(ts, " ")+")")
		}
		q := "exists"
		if x.Forall {
			q = "forall"
		}
		if len(pats) > 0 {
			body = "(! " + body + " " + strings.Join(pats, " ") + ")"
		}
		return TV{T: fmt.Sprintf("(%s (%s) %s)", q, strings.Join(decl, " "), body), S: "Bool"}
	case ECall:
		return env.trCall(x)
	}
	env.fail("cannot translate %s", e)
	return TV{}
}

func isNilExpr(e Expr) bool { _, ok := e.(ENil); return ok }

func arrayElemSort(s string) string {
	// "(Array Int X)" -> X
	s = strings.TrimSuffix(strings.TrimPrefix(s, "(Array "), ")")
	// index sort is a single token or parenthesised
	depth := 0
	for i, c := range s {
		switch c {
		case '(':
			depth++
		case ')':
			depth--
		case ' ':
			if depth == 0 {
				return s[i+1:]
			}
		}
	}
	return s
}

func findField(st *types.Struct, name string) (int, bool) {
	for i := 0; i < st.NumFields(); i++ {
		if st.Field(i).Name() == name {
			return i, true
		}
	}
	return 0, false
}

func (env *Env) selField(v TV, field string, e Expr) TV {
	fc := env.fc
	eng := fc.eng
	if v.G != nil {
		if el, ok := deref(v.G); ok {
			if info := eng.sorts.structInfoOf(el); info != nil {
				if i, ok := findField(info.st, field); ok {
					base := v.L
					if base == nil {
						base = &Loc{kind: locObj, ref: v.T, gt: el}
					}
					l := fc.fieldOf(base, info, i)
					ft := info.st.Field(i).Type()
					return TV{T: fc.loadLoc(l, env.st), S: info.fsorts[i], G: ft}
				}
				// promoted through embedded fields (one level)
				for j := 0; j < info.st.NumFields(); j++ {
					if info.st.Field(j).Embedded() {
						inner := env.selField(v, info.st.Field(j).Name(), e)
						if _, ok := tryField(eng, inner, field); ok {
							return env.selField(inner, field, e)
						}
					}
				}
			}
		}
		if info := eng.sorts.structInfoOf(v.G); info != nil {
			if i, ok := findField(info.st, field); ok {
				return TV{T: fmt.Sprintf("(%s %s)", info.fields[i], v.T), S: info.fsorts[i], G: info.st.Field(i).Type()}
			}
		}
	}
	// pseudo fields
	switch v.S {
	case "Slice":
		switch field {
		case "arr", "off":
			return TV{T: fmt.Sprintf("(s-%s %s)", field, v.T), S: "Int"}
		}
	case "Iface":
		switch field {
		case "typ", "val":
			return TV{T: fmt.Sprintf("(i-%s %s)", field, v.T), S: "Int"}
		}
	}
	if info, ok := eng.sorts.structs[v.S]; ok {
		if i, ok := findField(info.st, field); ok {
			return TV{T: fmt.Sprintf("(%s %s)", info.fields[i], v.T), S: info.fsorts[i], G: info.st.Field(i).Type()}
		}
	}
	env.fail("no field %q in %s (sort %s)", field, e, v.S)
	return TV{}
}

func tryField(eng *Engine, v TV, field string) (int, bool) {
	t := v.G
	if t == nil {
		return 0, false
	}
	if el, ok := deref(t); ok {
		t = el
	}
	if info := eng.sorts.structInfoOf(t); info != nil {
		return findField(info.st, field)
	}
	return 0, false
}

func (env *Env) trCall(x ECall) TV {
	fc := env.fc
	eng := fc.eng
	args := x.Args
	switch x.Fn {
	case "old":
		if env.old == nil {
			env.fail("old() not available here")
		}
		ne := *env
		ne.st = env.old
		return ne.tr(args[0])
	case "len", "cap":
		v := env.tr(args[0])
		switch v.S {
		case "Str":
			return TV{T: "(str.len " + v.T + ")", S: "Int"}
		case "Slice":
			return TV{T: "(s-" + x.Fn + " " + v.T + ")", S: "Int"}
		}
		env.fail("len of %s (sort %s)", args[0], v.S)
	case "ite":
		c := env.trBool(args[0])
		a, b := env.tr(args[1]), env.tr(args[2])
		if a.S == "Nil" {
			a = env.nilFor(b)
		}
		if b.S == "Nil" {
			b = env.nilFor(a)
		}
		return TV{T: fmt.Sprintf("(ite %s %s %s)", c, a.T, b.T), S: a.S, G: a.G}
	case "min", "max":
		a, b := env.tr(args[0]), env.tr(args[1])
		op := "<="
		if x.Fn == "max" {
			op = ">="
		}
		return TV{T: fmt.Sprintf("(ite (%s %s %s) %s %s)", op, a.T, b.T, a.T, b.T), S: "Int"}
	case "has":
		m := env.tr(args[0])
		k := env.tr(args[1])
		mt, ok := m.G.Underlying().(*types.Map)
		if !ok {
			env.fail("has() needs a map")
		}
		mh, _ := eng.mapHeaps(mt)
		return TV{T: fmt.Sprintf("(select (select %s %s) %s)", env.st.get(mh), m.T, k.T), S: "Bool"}
	case "string":
		v := env.tr(args[0])
		if v.S == "Slice" {
			h := env.st.get(eng.byteHeap())
			return TV{T: fmt.Sprintf("(bytes2str (select %s (s-arr %s)) (s-off %s) (s-len %s))", h, v.T, v.T, v.T), S: "Str"}
		}
		return v
	case "fresh":
		v := env.tr(args[0])
		if env.old == nil {
			env.fail("fresh() needs an old state")
		}
		return TV{T: fmt.Sprintf("(and (> %s %s) (<= %s %s))", v.T, env.old.get("$wm"), v.T, env.st.get("$wm")), S: "Bool"}
	case "arr":
		// arr(s): the identity of the backing array of slice s (0 for a nil slice)
		v := env.tr(args[0])
		return TV{T: "(s-arr " + v.T + ")", S: "Int"}
	case "off":
		// off(s): the offset of slice s in its backing array
		v := env.tr(args[0])
		return TV{T: "(s-off " + v.T + ")", S: "Int"}
	case "allocated":
		v := env.tr(args[0])
		return TV{T: fmt.Sprintf("(and (<= 0 %s) (<= %s %s))", v.T, v.T, env.st.get("$wm")), S: "Bool"}
	case "typeof":
		v := env.tr(args[0])
		return TV{T: "(i-typ " + v.T + ")", S: "Int"}
	case "dyn":
		// dyn("*go/ast.Ident") : the type id of a named Go type
		if s, ok := args[0].(EStr); ok {
			if id, ok := eng.typeConst(s.Val); ok {
				return TV{T: id, S: "Int"}
			}
			env.fail("unknown type %q", s.Val)
		}
	case "unbox":
		// unbox(x, "sort")
		v := env.tr(args[0])
		so := args[1].(EStr).Val
		if so == "Int" {
			// pointers and integers are stored in an interface value unboxed
			return TV{T: "(i-val " + v.T + ")", S: so}
		}
		return TV{T: fmt.Sprintf("(%s (i-val %s))", eng.unboxFn(so), v.T), S: so}
	case "implements":
		// implements(x, "pkg.Iface"): the dynamic type of interface value x implements the named interface
		v := env.tr(args[0])
		t := eng.lookupNamed(args[1].(EStr).Val)
		if t == nil {
			env.fail("implements: unknown interface %s", args[1])
		}
		f := eng.ufun("implements_"+shortTypeName(t), []string{"Int"}, "Bool")
		eng.noteIfaceAssert(t, f)
		return TV{T: fmt.Sprintf("(and (not (= (i-typ %s) 0)) (%s (i-typ %s)))", v.T, f, v.T), S: "Bool"}
	case "pointeeBoxed":
		// pointeeBoxed(p): the value behind the boxed pointer argument p, boxed as an interface
		l, el := fc.pointeeLoc(env, args[0])
		if l == nil {
			env.fail("pointeeBoxed(%s): not a boxed pointer built at the call site", args[0])
		}
		so := eng.sorts.sortOf(el)
		val := fc.loadLoc(l, env.st)
		payload := val
		if so != "Int" {
			payload = fmt.Sprintf("(%s %s)", eng.boxFn(so), val)
		}
		return TV{T: fmt.Sprintf("(mk-iface %s %s)", eng.typeIDTerm(el), payload), S: "Iface"}
	case "addr":
		// addr(x): the address of the addressable local variable (or captured variable) x
		if id, ok := args[0].(EIdent); ok {
			if tv, ok := env.vars["&"+id.Name]; ok {
				return tv
			}
		}
		env.fail("addr(%s): not an addressable local variable visible here", args[0])
	case "boxedSlice":
		// boxedSlice(x): the slice behind the interface argument x, which the caller built from a slice value
		a := fc.argSSA(env, args[0])
		mi, ok := a.(*ssa.MakeInterface)
		if !ok {
			env.fail("boxedSlice(%s): the argument is not an interface built from a slice at the call site", args[0])
		}
		if _, ok := mi.X.Type().Underlying().(*types.Slice); !ok {
			env.fail("boxedSlice(%s): the boxed value is not a slice", args[0])
		}
		tv := fc.v(mi.X)
		tv.G = mi.X.Type()
		return tv
	case "visited":
		// visited(k): in an invariant of a range-over-map loop, key k has been handed to the body already
		// (the iterator's visited set: every key is visited at most once, and only keys of the map are)
		if env.loop == nil || len(args) != 1 {
			env.fail("visited(k) is only meaningful in an invariant of a range-over-map loop")
		}
		var nx *ssa.Next
		for blk := range env.loop.body {
			for _, in := range blk.Instrs {
				if n, ok := in.(*ssa.Next); ok && !n.IsString {
					nx = n
				}
			}
		}
		if nx == nil {
			env.fail("visited(k): the loop does not range over a map")
		}
		rng := nx.Iter.(*ssa.Range)
		mt := rng.X.Type().Underlying().(*types.Map)
		ks := eng.sorts.sortOf(mt.Key())
		vis := eng.regHeap("ITV."+ks, "(Array Int (Array "+ks+" Bool))")
		it, ok := fc.val[nx.Iter]
		if !ok {
			env.fail("visited(k): the iterator is not defined here")
		}
		k := env.tr(args[0])
		return TV{T: fmt.Sprintf("(select (select %s %s) %s)", env.st.get(vis), it.T, k.T), S: "Bool"}
	case "closureResult":
		// closureResult(f, a1, ...): the value the function literal bound to parameter f returns on the
		// arguments, according to its own contract (which must have an ensures `res == E`)
		mc := fc.closureOfArg(env, args[0])
		if mc == nil {
			env.fail("closureResult(%s): not a function literal of the caller", args[0])
		}
		cfn := mc.Fn.(*ssa.Function)
		ccon := eng.byKey[cfn.String()]
		if ccon == nil {
			env.fail("closureResult: %s has no contract", cfn)
		}
		rname := "res"
		if len(ccon.Results) > 0 {
			rname = ccon.Results[0]
		}
		cenv := fc.closureEnv(mc, env.st, env.old)
		for i, p := range cfn.Params {
			n := p.Name()
			if i < len(ccon.Params) {
				n = ccon.Params[i]
			}
			if i+1 < len(args) {
				cenv.vars[n] = env.tr(args[i+1])
			}
		}
		// the literal's contract is closed over its own parameters and captured variables: the quantified
		// variables of the clause being translated must not capture them (arguments are already translated)
		cenv.bound = nil
		for _, c := range ccon.Ensures {
			if b, ok := c.E.(EBin); ok && b.Op == "==" {
				if id, ok := b.L.(EIdent); ok && id.Name == rname {
					fc.topCtx().usedContracts[ccon.Key] = true
					return cenv.tr(b.R)
				}
			}
		}
		env.fail("closureResult: %s has no ensures of the form `%s == E`", cfn, rname)
	case "as":
		// as("pkg.Type", x): x viewed as a value of the named Go type (same representation)
		tn := args[0].(EStr).Val
		var t types.Type
		if strings.HasPrefix(tn, "*") {
			if el := eng.lookupNamed(tn[1:]); el != nil {
				t = types.NewPointer(el)
			}
		} else {
			t = eng.lookupNamed(tn)
		}
		if t == nil {
			env.fail("as: unknown type %s", args[0])
		}
		v := env.tr(args[1])
		if eng.sorts.sortOf(t) != v.S {
			env.fail("as: %s has sort %s, value has %s", args[0], eng.sorts.sortOf(t), v.S)
		}
		return TV{T: v.T, S: v.S, G: t}
	case "mk":
		// mk("pkg.Struct", f1, f2, ...): a struct value
		t := eng.lookupNamed(args[0].(EStr).Val)
		info := eng.sorts.structInfoOf(t)
		if info == nil || len(args)-1 != len(info.fields) {
			env.fail("mk: %s is not a struct with %d fields", args[0], len(args)-1)
		}
		var ts []string
		for i, a := range args[1:] {
			v := env.tr(a)
			if v.S == "Nil" {
				v = env.nilFor(TV{S: info.fsorts[i]})
			}
			if v.S != info.fsorts[i] {
				env.fail("mk: field %d has sort %s, want %s", i, v.S, info.fsorts[i])
			}
			ts = append(ts, v.T)
		}
		return TV{T: "(mk-" + info.sort + " " + strings.Join(ts, " ") + ")", S: info.sort, G: t}
	case "boxed":
		// boxed(x): the interface value holding x (as MakeInterface would build it)
		v := env.tr(args[0])
		if v.G == nil {
			env.fail("boxed(%s): value has no Go type", args[0])
		}
		tid := eng.typeIDTerm(v.G)
		payload := v.T
		if v.S != "Int" {
			payload = fmt.Sprintf("(%s %s)", eng.boxFn(v.S), v.T)
		}
		return TV{T: fmt.Sprintf("(mk-iface %s %s)", tid, payload), S: "Iface"}
	case "store":
		a, k, v := env.tr(args[0]), env.tr(args[1]), env.tr(args[2])
		return TV{T: fmt.Sprintf("(store %s %s %s)", a.T, k.T, v.T), S: a.S}
	case "ret":
		// ret("callee", n): the result of the n-th call to callee in this function
		key := fmt.Sprintf("%s#%s", args[0].(EStr).Val, args[1].(EInt).Val)
		if len(args) > 2 {
			key += "." + args[2].(EInt).Val
		}
		if tv, ok := fc.topCtx().siteResults[key]; ok {
			return tv
		}
		env.fail("ret(%s): no such call site seen before this point", key)
	case "const":
		// const("go/token.EOF"): the value of a Go integer constant
		name := args[0].(EStr).Val
		i := strings.LastIndex(name, ".")
		for _, p := range eng.prog.AllPackages() {
			if p.Pkg.Path() == name[:i] {
				if c, ok := p.Pkg.Scope().Lookup(name[i+1:]).(*types.Const); ok {
					v := c.Val().ExactString()
					if strings.HasPrefix(v, "-") {
						v = "(- " + v[1:] + ")"
					}
					return TV{T: v, S: "Int", G: c.Type()}
				}
			}
		}
		env.fail("unknown constant %s", name)
	case "fn":
		// fn("pkg.name"): the function value of a package-level function
		name := args[0].(EStr).Val
		i := strings.LastIndex(name, ".")
		for _, p := range eng.prog.AllPackages() {
			if p.Pkg.Path() == name[:i] {
				if f, ok := p.Members[name[i+1:]].(*ssa.Function); ok {
					return fc.v(f)
				}
			}
		}
		env.fail("unknown function value %s", name)
	case "gt":
		// gt("IdentPtrType"): shorthand for the reflect type constant of package goast
		return env.trCall(ECall{"global", []Expr{EStr{eng.modPath + "/internal/goast." + args[0].(EStr).Val}}})
	case "global":
		name := args[0].(EStr).Val
		i := strings.LastIndex(name, ".")
		for _, p := range eng.prog.AllPackages() {
			if p.Pkg.Path() == name[:i] {
				if g, ok := p.Members[name[i+1:]].(*ssa.Global); ok {
					tv := fc.v(g)
					el, _ := deref(g.Type())
					return TV{T: fc.loadLoc(tv.L, env.st), S: eng.sorts.sortOf(el), G: el}
				}
			}
		}
		env.fail("unknown global %s", name)
	case "heapof":
		// heapof("F.S_x.f") : the raw heap array in the current state
		n := args[0].(EStr).Val
		return TV{T: env.st.get(n), S: eng.heapSort(n)}
	}
	if sk, ok := env.skolem[x.Fn]; ok {
		if len(sk.def.Args) != len(args) {
			env.fail("%s: want %d args", x.Fn, len(sk.def.Args))
		}
		var ts []string
		for _, a := range args {
			ts = append(ts, env.tr(a).T)
		}
		return TV{T: "(" + sk.fn + " " + strings.Join(ts, " ") + ")", S: sortOfTypeName(sk.def.Result)}
	}
	if d, ok := eng.cs.Spec.Defs[x.Fn]; ok {
		if len(d.Params) != len(args) {
			env.fail("%s: want %d args", x.Fn, len(d.Params))
		}
		ne := *env
		ne.bound = map[string]TV{}
		for k, v := range env.bound {
			ne.bound[k] = v
		}
		for i, p := range d.Params {
			a := env.tr(args[i])
			ne.bound[p.Name] = a
		}
		return ne.tr(d.Body)
	}
	if sf, ok := eng.cs.Spec.Funs[x.Fn]; ok {
		if len(sf.Args) != len(args) {
			env.fail("%s: want %d args, got %d", x.Fn, len(sf.Args), len(args))
		}
		var ts []string
		for i, a := range args {
			v := env.tr(a)
			if v.S == "Nil" {
				v = env.nilFor(TV{S: sf.Args[i]})
			}
			if v.S != sf.Args[i] {
				env.fail("%s: arg %d has sort %s, want %s", x.Fn, i, v.S, sf.Args[i])
			}
			ts = append(ts, v.T)
		}
		if sf.Reads != "" {
			if _, ok := eng.heaps[sf.Reads]; !ok {
				eng.regHeap(sf.Reads, sf.ReadsSort)
			}
			ts = append([]string{env.st.get(sf.Reads)}, ts...)
		}
		if len(ts) == 0 {
			return TV{T: x.Fn, S: sf.Result}
		}
		return TV{T: "(" + x.Fn + " " + strings.Join(ts, " ") + ")", S: sf.Result}
	}
	env.fail("unknown function %q", x.Fn)
	return TV{}
}

// locOfExpr evaluates an assigns target to a location.
func (env *Env) locOfExpr(e Expr) *Loc {
	fc := env.fc
	eng := fc.eng
	switch x := e.(type) {
	case EIdent:
		if _, ok := eng.cs.Spec.Ghosts[x.Name]; ok {
			return &Loc{kind: locGhost, heap: "G." + x.Name}
		}
		if x.Name == "wm" {
			return &Loc{kind: locGhost, heap: "$wm"}
		}
		if v, ok := env.vars[x.Name]; ok && v.T == "" && v.L != nil {
			return v.L
		}
		env.fail("assigns target %s is not a location", e)
	case EUn:
		if x.Op == "*" {
			v := env.tr(x.X)
			if v.L != nil {
				return v.L
			}
			el, ok := deref(v.G)
			if !ok {
				env.fail("cannot dereference %s", x.X)
			}
			return eng.derefLoc(v.T, el)
		}
	case ESel:
		v := env.tr(x.X)
		if el, ok := deref(v.G); ok {
			if info := eng.sorts.structInfoOf(el); info != nil {
				if i, ok := findField(info.st, x.Field); ok {
					base := v.L
					if base == nil {
						base = &Loc{kind: locObj, ref: v.T, gt: el}
					}
					return fc.fieldOf(base, info, i)
				}
			}
		}
		// field of an addressable struct variable
		if id, ok := x.X.(EIdent); ok {
			if vv, ok := env.vars[id.Name]; ok && vv.L != nil {
				if info := eng.sorts.structInfoOf(vv.L.gt); info != nil {
					if i, ok := findField(info.st, x.Field); ok {
						return fc.fieldOf(vv.L, info, i)
					}
				}
			}
		}
		env.fail("assigns target %s: no such field", e)
	case EIndex:
		v := env.tr(x.X)
		i := env.tr(x.I)
		if sl, ok := v.G.Underlying().(*types.Slice); ok {
			return &Loc{kind: locElem, heap: eng.elemHeap(sl.Elem()), ref: "(s-arr " + v.T + ")", idx: fmt.Sprintf("(+ (s-off %s) %s)", v.T, i.T), gt: sl.Elem()}
		}
	}
	env.fail("unsupported assigns target %s", e)
	return nil
}
