package main

import (
	"fmt"
	"go/types"
	"os"
	"path/filepath"
	"sort"
	"strings"

	"golang.org/x/tools/go/packages"
	"golang.org/x/tools/go/ssa"
	"golang.org/x/tools/go/ssa/ssautil"
)

const repoRoot = "/repo"
const modPath = "github.com/uber-go/gopatch"

func verifRoot() string {
	if v := os.Getenv("GVC_VERIF"); v != "" {
		return v
	}
	return "/verif"
}

func repoDir() string {
	if v := os.Getenv("GVC_REPO"); v != "" {
		return v
	}
	return repoRoot
}

func loadEngine() (*Engine, error) {
	cfg := &packages.Config{Mode: packages.LoadAllSyntax, Dir: repoDir(), BuildFlags: []string{"-tags=verif"},
		Env: append(os.Environ(), "GOFLAGS=-mod=mod", "GOPROXY=off", "GOSUMDB=off", "GOTOOLCHAIN=local")}
	pkgs, err := packages.Load(cfg, "./...")
	if err != nil {
		return nil, err
	}
	var errs []string
	packages.Visit(pkgs, nil, func(p *packages.Package) {
		for _, e := range p.Errors {
			if strings.HasPrefix(p.PkgPath, modPath) {
				errs = append(errs, e.Error())
			}
		}
	})
	if len(errs) > 0 {
		return nil, fmt.Errorf("repository does not type-check:\n%s", strings.Join(errs, "\n"))
	}
	prog, _ := ssautil.AllPackages(pkgs, ssa.GlobalDebug|ssa.SanityCheckFunctions)
	prog.Build()
	e := &Engine{prog: prog, fset: prog.Fset, funcs: map[string]*ssa.Function{}, allFns: map[string]*ssa.Function{},
		sorts: newSorts(), byKey: map[string]*Contract{}, heaps: map[string]string{}, strLits: map[string]string{},
		boxes: map[string]bool{}, ufuns: map[string]string{}, tconsts: map[string]string{}, modPath: modPath,
		modCache: map[*ssa.Function]map[string]bool{}}
	e.regHeap("$wm", "Int")
	// dependency struct types are transparent only if repository code accesses their fields
	touched := map[string]bool{}
	for fn := range ssautil.AllFunctions(prog) {
		if !e.isRepoFn(fn) {
			continue
		}
		for _, b := range fn.Blocks {
			for _, in := range b.Instrs {
				switch x := in.(type) {
				case *ssa.FieldAddr:
					if n, ok := mustDeref(x.X.Type()).(*types.Named); ok {
						touched[n.String()] = true
					}
				case *ssa.Field:
					if n, ok := x.X.Type().(*types.Named); ok {
						touched[n.String()] = true
					}
				}
			}
		}
	}
	e.sorts.autoOpaque = func(n *types.Named) bool {
		if n.Obj().Pkg() == nil {
			return false
		}
		path := n.Obj().Pkg().Path()
		if strings.HasPrefix(path, modPath) || path == "go/ast" {
			return false
		}
		return !touched[n.String()]
	}
	for fn := range ssautil.AllFunctions(prog) {
		e.allFns[fn.String()] = fn
		if e.isRepoFn(fn) && fn.Synthetic == "" {
			if strings.Contains(fnPkgPathDeep(fn), "/tools") {
				continue
			}
			e.funcs[fn.String()] = fn
		}
	}
	// contracts
	cs := &ContractSet{Spec: newSpec()}
	e.cs = cs
	vr := verifRoot()
	specs, _ := filepath.Glob(filepath.Join(vr, "spec", "*.spec"))
	sort.Strings(specs)
	for _, f := range specs {
		if err := cs.parseSpecFile(f); err != nil {
			return nil, err
		}
	}
	tcs, _ := filepath.Glob(filepath.Join(vr, "trusted", "*.tc"))
	sort.Strings(tcs)
	for _, f := range tcs {
		if err := cs.parseSpecFile(f); err != nil {
			return nil, err
		}
	}
	files, err := cs.loadRepoContracts(repoDir(), modPath)
	if err != nil {
		return nil, err
	}
	e.contractFiles = files
	for k, v := range cs.Spec.Opaque {
		e.sorts.opaque[k] = v
	}
	for _, g := range cs.Spec.GhostOrd {
		e.regHeap("G."+g, cs.Spec.Ghosts[g])
	}
	for _, c := range cs.byHeader {
		if old, dup := e.byKey[c.Key]; dup {
			return nil, fmt.Errorf("%s:%d: duplicate contract for %s (first at %s:%d)", c.File, c.Line, c.Key, old.File, old.Line)
		}
		e.byKey[c.Key] = c
	}
	// every non-trusted contract must name an existing repo function
	for k, c := range e.byKey {
		if c.Trusted || strings.HasPrefix(k, "iface:") || strings.HasPrefix(k, "funcval:") {
			continue
		}
		if _, ok := e.funcs[k]; !ok {
			e.missing = append(e.missing, fmt.Sprintf("%s:%d: contract target %s does not exist", c.File, c.Line, k))
		}
	}
	sort.Strings(e.missing)
	// type ids for every named type of the repo and go/ast (stable order)
	e.registerTypes()
	e.preregisterHeaps()
	_ = readJSON(filepath.Join(vr, "known_findings.json"), &e.known)
	return e, nil
}

func fnPkgPathDeep(fn *ssa.Function) string {
	for f := fn; f != nil; f = f.Parent() {
		if p := fnPkgPath(f); p != "" {
			return p
		}
	}
	return ""
}

func (e *Engine) registerTypes() {
	var names []string
	byName := map[string]types.Type{}
	for _, p := range e.prog.AllPackages() {
		path := p.Pkg.Path()
		if !(strings.HasPrefix(path, e.modPath) || path == "go/ast" || path == "go/token" || path == "reflect") {
			continue
		}
		sc := p.Pkg.Scope()
		for _, n := range sc.Names() {
			if tn, ok := sc.Lookup(n).(*types.TypeName); ok && !tn.IsAlias() {
				t := tn.Type()
				if _, isIface := t.Underlying().(*types.Interface); isIface {
					continue
				}
				byName[t.String()] = t
				names = append(names, t.String())
				pt := types.NewPointer(t)
				byName[pt.String()] = pt
				names = append(names, pt.String())
			}
		}
	}
	sort.Strings(names)
	for _, n := range names {
		e.typeIDTerm(byName[n])
	}
}

// ifaceContractsFor: the interface-method contracts a repo method must refine.
func (e *Engine) ifaceContractsFor(fn *ssa.Function) []*Contract {
	if fn.Signature.Recv() == nil || len(fn.Params) == 0 {
		return nil
	}
	rt := fn.Params[0].Type()
	var out []*Contract
	var keys []string
	for k := range e.byKey {
		if strings.HasPrefix(k, "iface:") && strings.HasSuffix(k, "."+fn.Name()) {
			keys = append(keys, k)
		}
	}
	sort.Strings(keys)
	for _, k := range keys {
		tn := strings.TrimSuffix(k[6:], "."+fn.Name())
		t := e.lookupNamed(tn)
		if t == nil {
			continue
		}
		it, ok := t.Underlying().(*types.Interface)
		if !ok || !strings.HasPrefix(tn, e.modPath) {
			continue
		}
		if types.Implements(rt, it) {
			out = append(out, e.byKey[k])
		}
	}
	return out
}

// knownFor: the recorded (status known) finding for an obligation, if any.
func (e *Engine) knownFor(fn, name string) *KnownFinding {
	for i := range e.known {
		k := &e.known[i]
		if k.Status == "known" && k.Fn == fn && k.Obligation == name {
			return k
		}
	}
	return nil
}

// groupHeaps: registered heaps belonging to a named heap group (spec: heapgroup).
func (e *Engine) groupHeaps(name string) []string {
	prefs, ok := e.cs.Spec.Groups[name]
	if !ok {
		panic(trErr("unknown heap group " + name))
	}
	var out []string
	for h := range e.heaps {
		for _, p := range prefs {
			if strings.HasPrefix(h, p) {
				out = append(out, h)
				break
			}
		}
	}
	sort.Strings(out)
	return out
}

// preregisterHeaps declares the field/element heaps of every struct type of the
// given packages up front, so that heap groups and havocs are complete.
func (e *Engine) regTypeHeaps(t types.Type, depth int) {
	if t == nil || depth > 3 {
		return
	}
	if _, isTuple := t.(*types.Tuple); !isTuple {
		e.sorts.sortOf(t)
	}
	switch u := t.Underlying().(type) {
	case *types.Slice:
		e.elemHeap(u.Elem())
		e.regTypeHeaps(u.Elem(), depth+1)
	case *types.Map:
		e.mapHeaps(u)
	case *types.Pointer:
		el := u.Elem()
		if info := e.sorts.structInfoOf(el); info != nil {
			for i := range info.fields {
				e.fieldHeap(info, i)
			}
		} else if a, ok := el.Underlying().(*types.Array); ok {
			e.elemHeap(a.Elem())
		} else if _, isStruct := el.Underlying().(*types.Struct); !isStruct || e.sorts.sortOf(el) != "" {
			e.cellHeap(el)
		}
	case *types.Tuple:
		for i := 0; i < u.Len(); i++ {
			e.regTypeHeaps(u.At(i).Type(), depth+1)
		}
	}
}

func (e *Engine) preregisterHeaps() {
	var names []string
	for k := range e.funcs {
		names = append(names, k)
	}
	sort.Strings(names)
	for _, k := range names {
		fn := e.funcs[k]
		for _, p := range fn.Params {
			e.regTypeHeaps(p.Type(), 0)
		}
		for _, fv := range fn.FreeVars {
			e.regTypeHeaps(fv.Type(), 0)
		}
		for _, b := range fn.Blocks {
			for _, in := range b.Instrs {
				if v, ok := in.(ssa.Value); ok {
					e.regTypeHeaps(v.Type(), 0)
				}
			}
		}
	}
	for _, p := range e.prog.AllPackages() {
		path := p.Pkg.Path()
		if !(strings.HasPrefix(path, e.modPath) || path == "go/ast") {
			continue
		}
		sc := p.Pkg.Scope()
		for _, n := range sc.Names() {
			tn, ok := sc.Lookup(n).(*types.TypeName)
			if !ok || tn.IsAlias() {
				continue
			}
			t := tn.Type()
			if sl, ok := t.Underlying().(*types.Slice); ok {
				e.elemHeap(sl.Elem())
			}
			info := e.sorts.structInfoOf(t)
			if info == nil {
				continue
			}
			for i := 0; i < info.st.NumFields(); i++ {
				e.fieldHeap(info, i)
				switch ft := info.st.Field(i).Type().Underlying().(type) {
				case *types.Slice:
					e.elemHeap(ft.Elem())
				case *types.Map:
					e.mapHeaps(ft)
				}
			}
		}
	}
}

// noteIfaceAssert records that implements_<I>(tid) is needed; facts are emitted in the prelude.
func (e *Engine) noteIfaceAssert(t types.Type, f string) {
	if e.ifaceAsserts == nil {
		e.ifaceAsserts = map[string]types.Type{}
	}
	e.ifaceAsserts[f] = t
}

// ifaceFacts: for every known concrete type id, whether it implements each asserted interface.
func (e *Engine) ifaceFacts() []string {
	var out []string
	var fs []string
	for f := range e.ifaceAsserts {
		fs = append(fs, f)
	}
	sort.Strings(fs)
	for _, f := range fs {
		it := e.ifaceAsserts[f].Underlying().(*types.Interface)
		for _, t := range e.sorts.typeList {
			id := e.tconsts[t.String()]
			if types.Implements(t, it) {
				out = append(out, fmt.Sprintf("(%s %s)", f, id))
			} else {
				out = append(out, fmt.Sprintf("(not (%s %s))", f, id))
			}
		}
	}
	return out
}

// implsOf: repo functions implementing an interface method key "pkg.Iface.Method".
func (e *Engine) implsOf(key string) []*ssa.Function {
	i := strings.LastIndex(key, ".")
	if i < 0 {
		return nil
	}
	t := e.lookupNamed(key[:i])
	if t == nil {
		return nil
	}
	it, ok := t.Underlying().(*types.Interface)
	if !ok {
		return nil
	}
	m := key[i+1:]
	var out []*ssa.Function
	seen := map[*ssa.Function]bool{}
	for _, p := range e.prog.AllPackages() {
		if !strings.HasPrefix(p.Pkg.Path(), e.modPath) {
			continue
		}
		for _, mem := range p.Members {
			tn, ok := mem.(*ssa.Type)
			if !ok {
				continue
			}
			for _, ty := range []types.Type{tn.Type(), types.NewPointer(tn.Type())} {
				if _, isI := ty.Underlying().(*types.Interface); isI {
					continue
				}
				if !types.Implements(ty, it) {
					continue
				}
				ms := e.prog.MethodSets.MethodSet(ty)
				for k := 0; k < ms.Len(); k++ {
					if ms.At(k).Obj().Name() == m {
						if f := e.prog.MethodValue(ms.At(k)); f != nil {
							// unwrap synthetic pointer-receiver wrappers
							if f.Synthetic != "" {
								if o, ok := ms.At(k).Obj().(*types.Func); ok {
									if rf := e.prog.FuncValue(o); rf != nil {
										f = rf
									}
								}
							}
							if !seen[f] {
								seen[f] = true
								out = append(out, f)
							}
						}
					}
				}
			}
		}
	}
	sort.Slice(out, func(i, j int) bool { return out[i].String() < out[j].String() })
	return out
}

// buildSCC computes strongly connected components of the repo call graph
// (static calls, closures, interface invokes resolved to all repo implementations).
func (e *Engine) buildSCC() {
	adj := map[string][]string{}
	for name, fn := range e.funcs {
		for _, b := range fn.Blocks {
			for _, in := range b.Instrs {
				switch x := in.(type) {
				case ssa.CallInstruction:
					c := x.Common()
					if c.IsInvoke() {
						for _, impl := range e.implsOf(c.Value.Type().String() + "." + c.Method.Name()) {
							adj[name] = append(adj[name], impl.String())
						}
					} else if sf := c.StaticCallee(); sf != nil {
						adj[name] = append(adj[name], sf.String())
					}
				case *ssa.MakeClosure:
					adj[name] = append(adj[name], x.Fn.(*ssa.Function).String())
				}
			}
		}
	}
	e.scc = map[string]int{}
	e.sccSize = map[int]int{}
	index := map[string]int{}
	low := map[string]int{}
	on := map[string]bool{}
	var stack []string
	n, comp := 0, 0
	var names []string
	for k := range e.funcs {
		names = append(names, k)
	}
	sort.Strings(names)
	var strong func(v string)
	strong = func(v string) {
		index[v], low[v] = n, n
		n++
		stack = append(stack, v)
		on[v] = true
		for _, w := range adj[v] {
			if _, ok := e.funcs[w]; !ok {
				continue
			}
			if _, seen := index[w]; !seen {
				strong(w)
				if low[w] < low[v] {
					low[v] = low[w]
				}
			} else if on[w] && index[w] < low[v] {
				low[v] = index[w]
			}
		}
		if low[v] == index[v] {
			for {
				w := stack[len(stack)-1]
				stack = stack[:len(stack)-1]
				on[w] = false
				e.scc[w] = comp
				e.sccSize[comp]++
				if w == v {
					break
				}
			}
			comp++
		}
	}
	for _, v := range names {
		if _, seen := index[v]; !seen {
			strong(v)
		}
	}
	// self loops count as recursive
	for v, ws := range adj {
		for _, w := range ws {
			if v == w {
				e.sccSize[e.scc[v]] += 1
			}
		}
	}
}
