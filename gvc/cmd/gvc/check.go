package main

import (
	"os/exec"
	"context"
	"bytes"
	"regexp"
	"encoding/json"
	"fmt"
	"os"
	"path/filepath"
	"sort"
	"strconv"
	"strings"
	"time"
)

// PropConfig says which functions' obligations decide a property.
type PropConfig struct {
	Functions   []string `json:"functions"`             // keys (as printed by ssa) of functions under contract
	Packages    []string `json:"packages,omitempty"`    // every function of these packages (safety sweep)
	Exclude     []string `json:"exclude,omitempty"`     // function keys excluded from the package sweep (with reason in notes)
	OnlyTagged  bool     `json:"only_tagged,omitempty"` // count only clauses tagged with this property id
	AlsoTags    []string `json:"also_tags,omitempty"`   // clauses tagged with these property ids count too (the property depends on them)
	TaggedOnly  []string `json:"tagged_only_functions,omitempty"` // functions of which only the clauses tagged with this property id are claimed (their zero-annotation safety obligations are not all discharged)
	FramesOnly  []string `json:"frames_only_functions,omitempty"` // functions of which only the frame obligations (what they may modify) and the clauses tagged with this property id are claimed
	Kinds       []string `json:"kinds,omitempty"`       // restrict to obligation kinds with these prefixes
	Analyses    []AnalysisSpec `json:"analyses,omitempty"` // solver-free inventory analyses over the SSA call graph
	Assumptions []string `json:"assumptions"`
	Lemmas      []string `json:"lemmas,omitempty"` // Lean files (relative to /verif) proving the mathematical lemmas the spec states as axioms; re-checked in the thorough tier
	Level       string   `json:"level"`
	Notes       string   `json:"notes,omitempty"`
}

type AnalysisSpec struct {
	Kind          string   `json:"kind"` // effects | writes | impls
	Name          string   `json:"name,omitempty"`
	Roots         []string `json:"roots,omitempty"`
	Forbidden     []string `json:"forbidden,omitempty"`
	AllowedIn     []string `json:"allowed_in,omitempty"`
	ImmutablePkgs []string `json:"immutable_pkgs,omitempty"`
	Scratch       []string `json:"scratch,omitempty"`
	Iface         string   `json:"iface,omitempty"`
}

type KnownFinding struct {
	Property   string `json:"property"`
	Fn         string `json:"fn"`
	Obligation string `json:"obligation"`
	Status     string `json:"status"` // known | fixed
	Commit     string `json:"commit,omitempty"`
	What       string `json:"what"`
	When       string `json:"when,omitempty"` // contract-language predicate (in the obligation's own environment) isolating the failing case
	Witness    string `json:"witness,omitempty"`
}

type LedgerEntry struct {
	Fn   string `json:"fn"`
	Name string `json:"name"`
}

func readJSON(path string, v any) error {
	bs, err := os.ReadFile(path)
	if err != nil {
		return err
	}
	return json.Unmarshal(bs, v)
}

func stableKind(name string) bool {
	// obligations whose names do not depend on instruction ordinals
	for _, p := range []string{"post/", "frame/", "cover/", "at@", "at-unmatched/"} {
		if strings.HasPrefix(name, p) {
			return true
		}
	}
	if strings.HasPrefix(name, "loop") && (strings.Contains(name, "/inv-entry/") || strings.Contains(name, "/inv-step/") || strings.Contains(name, "/variant/")) {
		return true
	}
	return false
}

// ledgerName: the name under which an obligation is recorded in the ledger. Back-edge obligations
// (one per `continue` / loop end) are recorded once per clause, without the back-edge descriptor:
// adding or removing a back edge is not a vanished contract target.
func ledgerName(name string) string {
	if strings.HasPrefix(name, "loop") && (strings.Contains(name, "/inv-step/") || strings.Contains(name, "/variant/")) {
		if i := strings.Index(name, "@after:"); i >= 0 {
			return name[:i]
		}
	}
	return name
}

func inList(xs []string, x string) bool {
	for _, y := range xs {
		if y == x {
			return true
		}
	}
	return false
}

func hasTag(o *Obligation, id string) bool {
	if len(o.Tags) == 0 {
		return true
	}
	for _, t := range o.Tags {
		if t == id {
			return true
		}
	}
	return false
}

type oblReport struct {
	Fn      string  `json:"fn"`
	Name    string  `json:"name"`
	Desc    string  `json:"desc"`
	Pos     string  `json:"pos"`
	Answer  string  `json:"answer"`
	By      string  `json:"by"`
	Secs    float64 `json:"secs"`
	SMTSize int     `json:"smt_bytes,omitempty"`
}

func cmdCheck(args []string) int {
	t0 := time.Now()
	tier := os.Getenv("VERIF_TIER")
	if tier == "" {
		tier = "quick"
	}
	var id string
	mkLedger := false
	for i := 0; i < len(args); i++ {
		switch {
		case args[i] == "--tier" && i+1 < len(args):
			tier = args[i+1]
			i++
		case args[i] == "--ledger":
			mkLedger = true
		default:
			id = args[i]
		}
	}
	if id == "" {
		fmt.Fprintln(os.Stderr, "usage: gvc check <property> [--tier quick|thorough] [--ledger]")
		return 2
	}
	seed, _ := strconv.Atoi(os.Getenv("VERIF_SEED"))
	vr := verifRoot()
	// outRoot: where evidence/ and out/ are written (redirected when a scratch
	// copy of the repository is being checked, so real evidence is not clobbered)
	outRoot := vr
	if o := os.Getenv("GVC_OUT"); o != "" {
		outRoot = o
	}
	var props map[string]*PropConfig
	if err := readJSON(filepath.Join(vr, "props.json"), &props); err != nil {
		fmt.Fprintln(os.Stderr, "props.json:", err)
		return 2
	}
	pc := props[id]
	if pc == nil {
		fmt.Fprintln(os.Stderr, "unknown property", id)
		return 2
	}
	e, err := loadEngine()
	if err != nil {
		// the tree does not load: nothing can be decided
		fmt.Fprintln(os.Stderr, "gvc: cannot load repository:", err)
		return 2
	}
	known := e.known
	// functions under contract for this property
	keyset := map[string]bool{}
	for _, k := range pc.Functions {
		keyset[k] = true
	}
	excl := map[string]bool{}
	for _, k := range pc.Exclude {
		excl[k] = true
	}
	for _, p := range pc.Packages {
		for k, fn := range e.funcs {
			if fnPkgPathDeep(fn) == p && !excl[k] && fn.Blocks != nil {
				keyset[k] = true
			}
		}
	}
	var keys []string
	for k := range keyset {
		keys = append(keys, k)
	}
	sort.Strings(keys)
	results := e.generate(keys)
	silent := map[*FuncResult][]*Obligation{}
	// filter obligations to those that serve this property
	nobl := 0
	for _, r := range results {
		if r.Err != nil {
			continue
		}
		var keep []*Obligation
		taggedOnly := inList(pc.TaggedOnly, r.Fn)
		framesOnly := inList(pc.FramesOnly, r.Fn)
		for _, o := range r.Obls {
			if taggedOnly && !o.Cover && !inList(o.Tags, id) {
				if len(o.Tags) > 0 && o.assumeIdx >= 0 && r.Query != nil && !o.Known {
					silent[r] = append(silent[r], o)
				}
				continue
			}
			if framesOnly && !o.Cover && !inList(o.Tags, id) && !strings.HasPrefix(o.Name, "frame/") && !strings.Contains(o.Name, "/frame-") {
				if len(o.Tags) > 0 && o.assumeIdx >= 0 && r.Query != nil && !o.Known {
					silent[r] = append(silent[r], o)
				}
				continue
			}
			if !hasTag(o, id) {
				also := false
				for _, t := range pc.AlsoTags {
					if hasTag(o, t) {
						also = true
					}
				}
				if !also {
					// a clause that serves other properties only: this check does not prove it, so it must not
					// lean on it either (a failure of that clause would otherwise mask failures of the claimed ones)
					// (opt-in: GVC_DROP_UNCLAIMED=1. By default the clauses of a function stand together - every one of
					// them is claimed by the check of the property it is tagged with, and all 19 checks must pass -
					// and supporting clauses are tagged with every property that relies on them.)
					if os.Getenv("GVC_DROP_UNCLAIMED") != "" && o.assumeIdx >= 0 && r.Query != nil && !o.Cover {
						if r.Query.skip == nil {
							r.Query.skip = map[int]bool{}
						}
						r.Query.skip[o.assumeIdx] = true
					} else if len(o.Tags) > 0 && o.assumeIdx >= 0 && r.Query != nil && !o.Cover && !o.Known {
						// decided silently: claimed by the checks of the properties it is tagged with, but if it does
						// not hold on this tree its fact must not support the clauses claimed here
						silent[r] = append(silent[r], o)
					}
					continue
				}
			}
			if pc.OnlyTagged && len(o.Tags) == 0 && !o.Cover && strings.HasPrefix(o.Name, "safety/") {
				// zero-annotation safety obligations are counted under C08 only;
				// untagged invariants / preconditions / frames support the tagged clauses
				continue
			}
			if len(pc.Kinds) > 0 && !o.Cover {
				ok := false
				for _, k := range pc.Kinds {
					if strings.HasPrefix(o.Name, k) {
						ok = true
					}
				}
				if !ok {
					continue
				}
			}
			keep = append(keep, o)
		}
		r.Obls = keep
		nobl += len(keep)
	}
	timeout := 30 // per obligation and solver; everything on the unchanged tree is decided in a few seconds - the margin is for loaded machines
	if tier == "thorough" {
		timeout = 60
	}
	outDir := filepath.Join(outRoot, "out", id)
	os.RemoveAll(outDir)
	if err := e.solveAll(results, timeout, 16, filepath.Join(outDir, "vc")); err != nil {
		fmt.Fprintln(os.Stderr, "gvc:", err)
		return 2
	}
	// Unmasking pass: an obligation that was not discharged must not be leaned on by the obligations after it
	// (assert-then-assume would let a false clause make the rest of the function vacuously provable). The facts
	// of the failed obligations are dropped and the discharged obligations generated after them are decided
	// again, until nothing new fails. Recorded known findings keep their fact (the check would otherwise raise
	// their consequences on the unchanged tree). Costs nothing when everything is discharged.
	var unclaimedFailed []string
	knownWhole := func(fn, name string) bool {
		for i := range known {
			k := &known[i]
			if k.Status == "known" && k.When == "" && k.Fn == fn && (k.Obligation == name || normObligationName(k.Obligation) == normObligationName(name)) {
				return true
			}
		}
		return false
	}
	// verdicts of the silently decided clauses (not reported; their facts are dropped when they fail)
	silentV := map[*Obligation]string{}
	if os.Getenv("GVC_NO_SILENT") == "" {
		var sub []*FuncResult
		for _, r := range results {
			if len(silent[r]) > 0 && r.Err == nil {
				sub = append(sub, &FuncResult{Fn: r.Fn, Query: r.Query, Obls: silent[r]})
			}
		}
		if len(sub) > 0 {
			if err := e.solveAll(sub, timeout, 16, ""); err != nil {
				fmt.Fprintln(os.Stderr, "gvc:", err)
				return 2
			}
			for _, sr := range sub {
				for j, o := range sr.Obls {
					silentV[o] = sr.Verdicts[j].Answer
				}
			}
		}
	}
	noted := map[string]bool{}
	for round := 0; round < 6; round++ {
		var sub []*FuncResult
		var back [][]int // index into r.Obls, or -1-k for silent[r][k]
		for _, r := range results {
			if r.Err != nil || r.Query == nil {
				continue
			}
			minIdx := -1
			drop := func(o *Obligation) {
				if r.Query.skip == nil {
					r.Query.skip = map[int]bool{}
				}
				if !r.Query.skip[o.assumeIdx] {
					r.Query.skip[o.assumeIdx] = true
					if minIdx < 0 || o.assumeIdx < minIdx {
						minIdx = o.assumeIdx
					}
				}
			}
			for i, o := range r.Obls {
				v := r.Verdicts[i]
				if o.Cover || o.Known || v.Answer == "unsat" || o.assumeIdx < 0 || knownWhole(r.Fn, o.Name) {
					continue
				}
				drop(o)
			}
			for _, o := range silent[r] {
				if a, ok := silentV[o]; !ok || a == "unsat" || knownWhole(r.Fn, o.Name) {
					continue
				}
				drop(o)
				if k := shortCallee(r.Fn) + " :: " + o.Name; !noted[k] {
					noted[k] = true
					unclaimedFailed = append(unclaimedFailed, k)
				}
			}
			if minIdx < 0 {
				continue
			}
			sr := &FuncResult{Fn: r.Fn, Query: r.Query}
			var idx []int
			for i, o := range r.Obls {
				if !o.Cover && !o.Known && r.Verdicts[i].Answer == "unsat" && o.n > minIdx {
					sr.Obls = append(sr.Obls, o)
					idx = append(idx, i)
				}
			}
			for k, o := range silent[r] {
				if silentV[o] == "unsat" && o.n > minIdx {
					sr.Obls = append(sr.Obls, o)
					idx = append(idx, -1-k)
				}
			}
			if len(idx) > 0 {
				sub = append(sub, sr)
				back = append(back, idx)
			}
		}
		if len(sub) == 0 {
			break
		}
		if err := e.solveAll(sub, timeout, 16, filepath.Join(outDir, "vc")); err != nil {
			fmt.Fprintln(os.Stderr, "gvc:", err)
			return 2
		}
		for k, sr := range sub {
			for _, r := range results {
				if r.Query == sr.Query && r.Fn == sr.Fn {
					for j, i := range back[k] {
						if sr.Verdicts[j].Answer == "unsat" {
							continue
						}
						if i >= 0 {
							r.Verdicts[i] = sr.Verdicts[j]
						} else {
							silentV[silent[r][-1-i]] = sr.Verdicts[j].Answer
						}
					}
				}
			}
		}
	}
	for _, u := range unclaimedFailed {
		fmt.Printf("NOTE: %s is claimed by the check of another property and is not discharged on this tree: its fact was not relied upon here\n", u)
	}
	// ledger
	ledgerPath := filepath.Join(vr, "ledger", id+".json")
	if mkLedger {
		var led []LedgerEntry
		for _, a := range pc.Analyses {
			n := "inventory/" + a.Kind + "/" + a.Name
			switch a.Kind {
			case "impls":
				n = "inventory/impls/" + shortCallee(a.Iface)
			case "effects":
				n = "inventory/effects/" + a.Name
			case "writes":
				n = "inventory/writes/" + a.Name
			case "maprange":
				n = "inventory/maprange/" + a.Name
			case "datakeys":
				n = "inventory/datakeys"
			}
			led = append(led, LedgerEntry{"(analysis)", n})
		}
		ledSeen := map[string]bool{}
		for _, r := range results {
			for _, o := range r.Obls {
				if stableKind(o.Name) && !o.Known && !ledSeen[r.Fn+"|"+ledgerName(o.Name)] {
					ledSeen[r.Fn+"|"+ledgerName(o.Name)] = true
					led = append(led, LedgerEntry{r.Fn, ledgerName(o.Name)})
				}
			}
		}
		sort.Slice(led, func(i, j int) bool {
			if led[i].Fn != led[j].Fn {
				return led[i].Fn < led[j].Fn
			}
			return led[i].Name < led[j].Name
		})
		os.MkdirAll(filepath.Dir(ledgerPath), 0o755)
		bs, _ := json.MarshalIndent(led, "", " ")
		os.WriteFile(ledgerPath, append(bs, '\n'), 0o644)
		fmt.Printf("ledger %s: %d stable obligations\n", ledgerPath, len(led))
	}
	var ledger []LedgerEntry
	_ = readJSON(ledgerPath, &ledger)

	type failure struct {
		fn, name, reason, pos, desc string
		v                         *Verdict
	}
	var fails []failure
	generated := map[string]bool{}
	discharged, total := 0, 0
	bySolver := map[string]int{}
	solverSecs := 0.0
	var samples []oblReport
	var all []oblReport
	var slow []string
	covers, coversOK := 0, 0
	var staleKnown, knownCases []string
	for _, r := range results {
		if r.Err != nil {
			fails = append(fails, failure{fn: r.Fn, name: "vcgen", reason: "generator-error: " + r.Err.Error()})
			continue
		}
		for i, o := range r.Obls {
			v := r.Verdicts[i]
			generated[r.Fn+"|"+ledgerName(o.Name)] = true
			solverSecs += v.Secs
			rep := oblReport{Fn: shortCallee(r.Fn), Name: o.Name, Desc: o.Desc, Pos: o.Pos, Answer: v.Answer, By: v.By, Secs: v.Secs}
			all = append(all, rep)
			if o.Known {
				// the recorded finding: report it; if it became provable the entry is stale
				if v.Answer == "unsat" {
					staleKnown = append(staleKnown, shortCallee(r.Fn)+" :: "+o.Name)
				} else {
					knownCases = append(knownCases, shortCallee(r.Fn)+" :: "+strings.TrimSuffix(o.Name, "/known-case")+" — "+o.Desc)
				}
				continue
			}
			if o.Cover {
				covers++
				if v.Answer == "covered" {
					coversOK++
				} else {
					vv := v
					fails = append(fails, failure{r.Fn, o.Name, "vacuity guard failed (" + v.Answer + "): contract or axioms are contradictory", o.Pos, o.Desc, &vv})
				}
				continue
			}
			total++
			if v.Answer == "unsat" {
				discharged++
				bySolver[v.By]++
				if v.Secs > float64(timeout)/2 {
					slow = append(slow, fmt.Sprintf("%s :: %s (%.1fs)", shortCallee(r.Fn), o.Name, v.Secs))
				}
				if len(samples) < 6 && (strings.HasPrefix(o.Name, "post/") || strings.Contains(o.Name, "inv-step") || len(samples) < 2) {
					samples = append(samples, rep)
				}
			} else {
				vv := v
				reason := "obligation not discharged (" + v.Answer + ")"
				if o.Uninterpretable != "" {
					reason = "the clause speaks about something that no longer exists at this site: " + o.Uninterpretable
				}
				fails = append(fails, failure{r.Fn, o.Name, reason, o.Pos, o.Desc, &vv})
			}
		}
	}
	genErr := map[string]bool{}
	for _, r := range results {
		if r.Err != nil {
			genErr[r.Fn] = true
		}
	}
	// solver-free inventory analyses
	var analysisReports []map[string]any
	for _, a := range pc.Analyses {
		var r analysisResult
		switch a.Kind {
		case "effects":
			r = e.effectInventory(a.Name, a.Roots, a.Forbidden, a.AllowedIn)
		case "writes":
			r = e.writeInventory(a.Name, a.Roots, a.ImmutablePkgs, a.Scratch)
		case "maprange":
			r = e.mapRangeInventory(a.Name, a.Roots, a.AllowedIn)
		case "impls":
			r = e.ifaceImplInventory(a.Iface)
		case "datakeys":
			r = e.dataKeyInventory()
		default:
			r = analysisResult{Name: "inventory/" + a.Kind, Desc: "unknown analysis kind"}
		}
		total++
		generated["(analysis)|"+r.Name] = true
		rep := oblReport{Fn: "(analysis)", Name: r.Name, Desc: r.Desc, Answer: "holds", By: "ssa call-graph inventory (solver-free)"}
		if r.OK {
			discharged++
			bySolver["inventory"]++
		} else {
			rep.Answer = "fails"
			fails = append(fails, failure{fn: "(analysis)", name: r.Name, reason: "inventory analysis failed: " + strings.Join(r.Detail, " | "), desc: r.Desc})
		}
		all = append(all, rep)
		analysisReports = append(analysisReports, map[string]any{"name": r.Name, "holds": r.OK, "what": r.Desc, "detail": r.Detail})
	}
	// The ledger guards against contracts that silently stop applying (a renamed function, a vanished loop or
	// clause). Parts of an obligation's name that follow the shape of the code rather than the contract are not
	// compared: the ordinal of a call site (`at@f#2/label`), the back edge or inlining path a loop obligation
	// was generated on (`@after:...`, `@inl:...`); frame obligations exist per heap the body touches and may
	// come and go with harmless edits.
	generatedNorm := map[string]bool{}
	for k := range generated {
		i := strings.Index(k, "|")
		if i >= 0 {
			generatedNorm[k[:i]+"|"+normObligationName(k[i+1:])] = true
		}
	}
	for _, l := range ledger {
		if genErr[l.Fn] {
			continue // already reported once as a generator error for that function
		}
		if strings.HasPrefix(l.Name, "frame/") || strings.Contains(l.Name, "/frame-") {
			continue
		}
		if !generated[l.Fn+"|"+l.Name] && !generatedNorm[l.Fn+"|"+normObligationName(l.Name)] {
			fails = append(fails, failure{fn: l.Fn, name: l.Name, reason: "contract-target-missing: the ledger obligation was not generated (function, loop or clause vanished)"})
		}
	}
	for _, m := range e.missing {
		for _, k := range keys {
			if strings.Contains(m, k) {
				fails = append(fails, failure{fn: k, name: "contract", reason: "contract-target-missing: " + m})
			}
		}
	}
	// known findings
	isKnown := func(f failure) *KnownFinding {
		for i := range known {
			k := &known[i]
			if (k.Property == id || inList(pc.AlsoTags, k.Property)) && k.Status == "known" && k.When == "" && k.Fn == f.fn && (k.Obligation == f.name || normObligationName(k.Obligation) == normObligationName(f.name)) {
				return k
			}
		}
		return nil
	}
	violations := 0
	var knownHit []string
	for _, kc := range knownCases {
		fmt.Printf("KNOWN-FINDING: property=%s %s\n", id, kc)
		knownHit = append(knownHit, kc)
	}
	if tier != "thorough" {
		// findings that only the bounded scenario harness of the thorough tier exercises are still listed
		for i := range known {
			k := &known[i]
			if k.Property == id && k.Status == "known" && strings.HasPrefix(k.Obligation, "scenario:") {
				fmt.Printf("KNOWN-FINDING: property=%s %s (exercised by the thorough tier) — %s\n", id, k.Obligation, k.What)
				knownHit = append(knownHit, k.Obligation)
			}
		}
	}
	for _, sk := range staleKnown {
		fmt.Printf("NOTE: known finding %s no longer fails (stale entry in known_findings.json)\n", sk)
	}
	replayDir := filepath.Join(outRoot, "out", "replay", id)
	os.RemoveAll(replayDir)
	for _, f := range fails {
		if k := isKnown(f); k != nil {
			fmt.Printf("KNOWN-FINDING: property=%s %s :: %s — %s\n", id, shortCallee(f.fn), f.name, k.What)
			knownHit = append(knownHit, shortCallee(f.fn)+" :: "+f.name)
			total-- // a recorded finding is reported as such, not counted among the obligations of the proof
			continue
		}
		violations++
		os.MkdirAll(replayDir, 0o755)
		rp := filepath.Join(replayDir, sanitize(shortCallee(f.fn)+"__"+f.name)+".json")
		rec := map[string]any{"property": id, "function": f.fn, "obligation": f.name, "reason": f.reason, "pos": f.pos, "desc": f.desc}
		suffix := " no-failing-input-found"
		if f.v != nil {
			rec["solver"] = f.v
			if out, ok := e.tryReplay(id, f.fn, f.name, f.v, rec); ok {
				suffix = ""
				rec["replay"] = out
			}
		}
		bs, _ := json.MarshalIndent(rec, "", " ")
		os.WriteFile(rp, append(bs, '\n'), 0o644)
		fmt.Printf("VIOLATION property=%s replay=%s obligation=%s::%s reason=%q%s\n", id, rp, shortCallee(f.fn), f.name, f.reason, suffix)
	}
	// evidence
	var assumedSummaries []string
	schemaUses := 0
	for _, r := range results {
		if r.Skipped {
			assumedSummaries = append(assumedSummaries, shortCallee(r.Fn))
		}
		if r.Ctx != nil {
			schemaUses += r.Ctx.schemaUses
		}
	}
	var trusted []string
	usedT := map[string]bool{}
	var unknownCalls []string
	inlined := map[string]bool{}
	for _, r := range results {
		if r.Ctx == nil {
			continue
		}
		for k := range r.Ctx.usedTrusted {
			usedT[k] = true
		}
		for k := range r.Ctx.inlined {
			inlined[k] = true
		}
		unknownCalls = append(unknownCalls, r.Ctx.unknownCalls...)
	}
	for k := range usedT {
		trusted = append(trusted, "trusted contract: "+k)
	}
	ap := map[string]bool{}
	for _, r := range results {
		if r.Ctx != nil {
			for k := range r.Ctx.assumedPosts {
				ap[k] = true
			}
		}
	}
	for k := range ap {
		trusted = append(trusted, "assumed postcondition (not verified on the body): "+shortCallee(k))
	}
	sort.Strings(trusted)
	base := []string{"Go type checker and go/ssa builder (golang.org/x/tools v0.29.0)", "SMT solvers z3 5.1.0 / z3 4.8.12 / cvc5 1.0.3 (raced; disagreement is a tool error)", "gvc VC generator (/verif/gvc)"}
	trusted = append(base, trusted...)
	var inl []string
	for k := range inlined {
		inl = append(inl, shortCallee(k))
	}
	sort.Strings(inl)
	var fnames []string
	for _, k := range keys {
		fnames = append(fnames, shortCallee(k))
	}
	assumptions := append([]string{}, pc.Assumptions...)
	assumptions = append(assumptions, "integers are mathematical (no wrap-around) except in functions marked `arith checked`; value ranges of machine types are assumed for inputs and loaded values")
	for _, w := range e.warns {
		assumptions = append(assumptions, "engine: "+w)
	}
	sort.Strings(unknownCalls)
	level := pc.Level
	if level == "" {
		level = "proof"
	}
	cov := map[string]any{
		"obligations":              total,
		"discharged":               discharged,
		"checker_cmd":              fmt.Sprintf("/verif/bin/gvc check %s --tier %s  (per obligation: z3-new -T:%d | z3 | cvc5)", id, tier, timeout),
		"trusted_base":             trusted,
		"samples":                  samples,
		"functions_under_contract": fnames,
		"inlined_callees":          inl,
		"by_solver":                bySolver,
		"solver_seconds":           solverSecs,
		"vacuity_covers":           covers,
		"vacuity_covers_ok":        coversOK,
		"ledger_obligations":       len(ledger),
		"known_findings":           knownHit,
		"slow_obligations":         slow,
		"explanation":              pc.Notes,
		"inventory_analyses":       analysisReports,
		"assumed_in_repo_summaries": assumedSummaries,
		"schema_unfoldings_used":   schemaUses,
	}
	// thorough tier: dynamic cross-checks on the real code and the must-fail corpus
	var thorough map[string]any
	if tier == "thorough" && violations == 0 && os.Getenv("GVC_NO_SELFTEST") == "" {
		thorough = e.thoroughExtras(id, keys)
		if n, _ := thorough["smoke_report_count"].(int); n > 0 {
			var elsewhere []string
			for _, v := range thorough["smoke_reports"].([]string) {
				// a scenario recorded as a known finding (any property: a crash is every property's business)
				knownScenario := false
				for i := range known {
					k := &known[i]
					if k.Status == "known" && strings.HasPrefix(k.Obligation, "scenario:") && strings.Contains(v, "scenario \""+strings.TrimPrefix(k.Obligation, "scenario:")+"\"") {
						// the shared scenario harness reports it under every property; the finding is
						// announced by the property it is listed for and only noted in the evidence elsewhere
						if k.Property == id {
							fmt.Printf("KNOWN-FINDING: property=%s %s — %s\n", id, k.Obligation, k.What)
							knownHit = append(knownHit, k.Obligation)
						} else {
							elsewhere = append(elsewhere, k.Property+" "+k.Obligation)
						}
						knownScenario = true
					}
				}
				if knownScenario {
					continue
				}
				rp := filepath.Join(replayDir, "smoke.json")
				os.MkdirAll(replayDir, 0o755)
				bs, _ := json.MarshalIndent(thorough, "", " ")
				os.WriteFile(rp, bs, 0o644)
				fmt.Printf("VIOLATION property=%s replay=%s reason=%q\n", id, rp, "scenario harness on the unchanged tree: "+v)
				violations++
			}
			thorough["smoke_reports_listed_as_known_finding_of_another_property"] = elsewhere
		}
		// mathematical lemmas stated as axioms in the spec: their Lean proofs are re-checked
		var lemmaReports []map[string]any
		for _, lf := range pc.Lemmas {
			ctx, cancel := context.WithTimeout(context.Background(), 300*time.Second)
			cmd := exec.CommandContext(ctx, "lean", filepath.Join(vr, lf))
			out, err := cmd.CombinedOutput()
			cancel()
			ok := err == nil && !bytes.Contains(out, []byte("sorry")) && !bytes.Contains(out, []byte("error"))
			rep := map[string]any{"file": lf, "checker": "lean 4", "accepted": ok}
			if !ok {
				rep["output"] = string(out)
				rp := filepath.Join(replayDir, "lemma_"+sanitize(lf)+".json")
				os.MkdirAll(replayDir, 0o755)
				bs, _ := json.MarshalIndent(rep, "", " ")
				os.WriteFile(rp, bs, 0o644)
				fmt.Printf("VIOLATION property=%s replay=%s reason=%q no-failing-input-found\n", id, rp, "the Lean proof of a lemma the spec states as an axiom is not accepted: "+lf)
				violations++
			}
			lemmaReports = append(lemmaReports, rep)
		}
		if len(lemmaReports) > 0 {
			thorough["lemmas"] = lemmaReports
		}
		cov["thorough"] = thorough
	}
	if total == 0 {
		// never report success on zero obligations
		fmt.Printf("VIOLATION property=%s replay=%s reason=%q no-failing-input-found\n", id, ledgerPath, "no obligations were generated (vacuous check)")
		violations++
	}
	ev := map[string]any{
		"property_id": id,
		"tier":        tier,
		"seed":        seed,
		"level":       level,
		"coverage":    cov,
		"assumptions": assumptions,
		"wall_s":      time.Since(t0).Seconds(),
		"violations":  violations,
	}
	os.MkdirAll(filepath.Join(outRoot, "evidence"), 0o755)
	bs, _ := json.MarshalIndent(ev, "", " ")
	if err := os.WriteFile(filepath.Join(outRoot, "evidence", id+".json"), append(bs, '\n'), 0o644); err != nil {
		fmt.Fprintln(os.Stderr, err)
		return 2
	}
	// full obligation table (not evidence; for inspection)
	os.MkdirAll(outDir, 0o755)
	bs, _ = json.MarshalIndent(all, "", " ")
	os.WriteFile(filepath.Join(outDir, "obligations.json"), bs, 0o644)
	fmt.Printf("%s: %d/%d obligations discharged, %d vacuity covers ok, %d functions, %.1fs\n", id, discharged, total, coversOK, len(keys), time.Since(t0).Seconds())
	if thorough != nil {
		if stale, _ := thorough["selftest_stale_patch_does_not_apply"].([]string); len(stale) > 0 {
			fmt.Printf("NOTE: %d seeded change(s) of the must-fail corpus do not apply to this tree any more and were skipped: %v\n", len(stale), stale)
		}
		if missed, _ := thorough["selftest_missed"].([]string); len(missed) > 0 {
			fmt.Printf("SELFTEST-FAILED: seeded changes no longer detected by %s: %v (the machinery is weaker than recorded; not a verdict about the repository)\n", id, missed)
			return 2
		}
	}
	if violations > 0 {
		return 1
	}
	return 0
}


var reSiteOrdinal = regexp.MustCompile(`^(at@[^#]*)#\d+`)

// normObligationName strips the code-shape-dependent parts of an obligation name (see the ledger check).
func normObligationName(n string) string {
	if i := strings.Index(n, "@after:"); i >= 0 {
		n = n[:i]
	}
	if i := strings.Index(n, "@inl:"); i >= 0 {
		n = n[:i]
	}
	n = strings.TrimSuffix(n, "/known-case")
	return reSiteOrdinal.ReplaceAllString(n, "$1")
}

func cmdReplay(args []string) int {
	if len(args) < 1 {
		fmt.Fprintln(os.Stderr, "usage: gvc replay <file>")
		return 2
	}
	bs, err := os.ReadFile(args[0])
	if err != nil {
		fmt.Fprintln(os.Stderr, err)
		return 2
	}
	os.Stdout.Write(bs)
	return 0
}
