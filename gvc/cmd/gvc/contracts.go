package main

import (
	"bufio"
	"fmt"
	"os"
	"path/filepath"
	"regexp"
	"sort"
	"strconv"
	"strings"
)

// Clause is one requires/ensures/invariant line.
type Clause struct {
	E    Expr
	Src  string
	Tags []string // property ids this clause serves ([C06,C12] prefix); empty = all
	Name string   // optional label: "name: expr"
}

type LoopContract struct {
	Unfold     []Clause // schema instances assumed at the loop head (definitional unfoldings)
	Invariants []Clause
	Decreases  Expr
	DecSrc     string
	NoTerm     bool // "decreases _" : termination explicitly not claimed (recorded as assumption)
}

// Contract is attached to one function (or interface method, or closure).
type Contract struct {
	Key        string // resolved key (ssa function String(), or "iface:<T>.<M>")
	Header     string
	File       string
	Line       int
	Recv       string
	Params     []string
	Results    []string
	Requires   []Clause
	Ensures    []Clause
	Assigns    []Expr
	AssignsSrc []string
	HasAssigns bool
	Decreases  Expr
	DecSrc     string
	Loops      map[int]*LoopContract
	Pure       bool // result is a function of the arguments (and nothing else); no effects
	Trusted    bool // from /verif/trusted: assumed, never verified
	Inline     bool
	Checked    bool // arith checked: overflow obligations
	Unfold     []Clause
	UnfoldPost []Clause // schema instances assumed in the exit state (to fold a definition for a fresh object)
	Abstract   []string // free-text notes about unmodelled parts
	Fresh      bool     // result is a fresh reference
	NoPanic    bool     // trusted: never panics under its requires
	Effects    []string // free-form effect tags of a trusted function, e.g. "disk-write"
	NilRecv    bool     // the method tolerates a nil pointer receiver
	Ats        []AtRule // assertions attached to call sites / effect classes
	AssumedEns []Clause // postconditions assumed at call sites but not verified on the body (typing facts about dependencies' output)
	Invariants []Clause // closure invariants: hold before and after every run of a function literal
	AssumedRefine map[string]string // `refines-assumed <clause>: <reason>`: a clause of the implemented interface method that is assumed of this implementation (object invariant), not proved on its body
	Skolems    []*SpecFun // `skolem f(S1, S2) R`: a function symbol that is fresh at every call site (existential witness)
}

var reWhere = regexp.MustCompile(` where arg(\d+) is "((?:[^"\\]|\\.)*)" `)

var reFuncHdr = regexp.MustCompile(`^(func|iface|closure)\s+(\([^)]*\)\s*)?([^\s(]+)\s*(\([^)]*\))?\s*(\([^)]*\))?\s*$`)

func splitNames(s string) []string {
	s = strings.TrimSpace(s)
	s = strings.TrimPrefix(s, "(")
	s = strings.TrimSuffix(s, ")")
	if strings.TrimSpace(s) == "" {
		return nil
	}
	var out []string
	for _, p := range strings.Split(s, ",") {
		f := strings.Fields(p)
		if len(f) > 0 {
			out = append(out, f[0])
		}
	}
	return out
}

func parseClause(src string) (Clause, error) {
	c := Clause{Src: src}
	s := strings.TrimSpace(src)
	if strings.HasPrefix(s, "[") {
		if i := strings.Index(s, "]"); i > 0 {
			for _, t := range strings.Split(s[1:i], ",") {
				c.Tags = append(c.Tags, strings.TrimSpace(t))
			}
			s = strings.TrimSpace(s[i+1:])
		}
	}
	if m := regexp.MustCompile(`^([a-zA-Z_][a-zA-Z0-9_\-]*):\s`).FindStringSubmatch(s); m != nil {
		c.Name = m[1]
		s = s[len(m[0]):]
	}
	e, err := parseExpr(s)
	if err != nil {
		return c, err
	}
	c.E = e
	return c, nil
}

// AtRule: "at call <callee>[#n] assert <clause>" or "at effect <tag> assert <clause>".
// The clause may use the caller's source variables visible at the site and
// arg0..argN for the call's arguments (arg0 is the receiver of a method call).
type AtRule struct {
	Kind   string // call | effect
	Target string
	Site   int // -1: every site
	C      Clause
	Set    string // ghost update after the call: "at call X set g = expr"
	// optional site filter `where argN is "literal"`: only call sites whose N-th argument is that string constant
	WhereArg int
	WhereLit string
}

// ContractSet holds everything parsed from contract, trusted and spec files.
type ContractSet struct {
	byHeader []*Contract
	Spec     *Spec
}

type SpecFun struct {
	Name   string
	Args   []string
	Result string
	// Reads: for a heap-reading function (`hfun f(S...) R reads <heap> <smt sort of the heap>`), the heap whose
	// current value is passed as the first SMT argument; "" for a pure function
	Reads     string
	ReadsSort string
}

type Spec struct {
	Sorts    []string
	Opaque   map[string]string // go type -> sort
	Funs     map[string]*SpecFun
	FunOrder []string
	Axioms   []Clause
	Ghosts   map[string]string // name -> sort
	GhostOrd []string
	PurePkgs map[string]bool
	Defs     map[string]*SpecDef // macros: def name(a S, b T) R = expr
	DefOrder []string
	RawSMT   []string
	Groups   map[string][]string // heap group name -> heap name prefixes
}

type SpecDef struct {
	Name   string
	Params []QVar
	Result string
	Body   Expr
	Src    string
}

func newSpec() *Spec {
	return &Spec{Opaque: map[string]string{}, Funs: map[string]*SpecFun{}, Ghosts: map[string]string{}, PurePkgs: map[string]bool{}, Defs: map[string]*SpecDef{}, Groups: map[string][]string{}}
}

// splitTop splits s at commas not nested in parentheses.
func splitTop(s string) []string {
	var out []string
	depth, last := 0, 0
	for i, c := range s {
		switch c {
		case '(':
			depth++
		case ')':
			depth--
		case ',':
			if depth == 0 {
				out = append(out, strings.TrimSpace(s[last:i]))
				last = i + 1
			}
		}
	}
	if t := strings.TrimSpace(s[last:]); t != "" {
		out = append(out, t)
	}
	return out
}

// parseContractLines parses the directive lines of one file. pkgPath is the Go
// package the file belongs to ("" for trusted/spec files, whose headers are
// fully qualified).
func (cs *ContractSet) parseContractLines(file, pkgPath string, lines []string, lineNos []int, trusted bool) error {
	var cur *Contract
	var curLoop *LoopContract
	errf := func(i int, f string, a ...any) error {
		return fmt.Errorf("%s:%d: %s", file, lineNos[i], fmt.Sprintf(f, a...))
	}
	for i, raw := range lines {
		ln := strings.TrimSpace(raw)
		if k := strings.Index(ln, " //"); k >= 0 {
			ln = strings.TrimSpace(ln[:k])
		}
		if ln == "" || strings.HasPrefix(ln, "//") {
			continue
		}
		word := ln
		rest := ""
		if k := strings.IndexAny(ln, " \t"); k >= 0 {
			word, rest = ln[:k], strings.TrimSpace(ln[k+1:])
		}
		switch word {
		case "func", "iface":
			m := reFuncHdr.FindStringSubmatch(ln)
			if m == nil {
				return errf(i, "bad header %q", ln)
			}
			cur = &Contract{Header: ln, File: file, Line: lineNos[i], Loops: map[int]*LoopContract{}, Trusted: trusted}
			curLoop = nil
			recv := strings.TrimSpace(m[2])
			name := m[3]
			cur.Params = splitNames(m[4])
			cur.Results = splitNames(m[5])
			if m[1] == "iface" {
				// iface pkg.Type.Method
				if pkgPath != "" && !strings.Contains(name, "/") && strings.Count(name, ".") == 1 {
					name = pkgPath + "." + name
				}
				cur.Key = "iface:" + name
			} else if recv != "" {
				r := strings.TrimSuffix(strings.TrimPrefix(recv, "("), ")")
				f := strings.Fields(r)
				rt := f[len(f)-1]
				if len(f) > 1 {
					cur.Recv = f[0]
				}
				ptr := strings.HasPrefix(rt, "*")
				rt = strings.TrimPrefix(rt, "*")
				if pkgPath != "" && !strings.Contains(rt, ".") {
					rt = pkgPath + "." + rt
				}
				if ptr {
					cur.Key = "(*" + rt + ")." + name
				} else {
					cur.Key = "(" + rt + ")." + name
				}
			} else if strings.HasPrefix(name, "funcval:") {
				cur.Key = name
			} else {
				if pkgPath != "" && !strings.Contains(name, ".") {
					name = pkgPath + "." + name
				} else if pkgPath != "" && strings.Contains(name, "$") && !strings.Contains(name, "/") && !strings.HasPrefix(name, pkgPath) {
					name = pkgPath + "." + name
				}
				cur.Key = name
			}
			cs.byHeader = append(cs.byHeader, cur)
		case "requires", "ensures", "ensures-assumed", "invariant", "unfold", "unfold-post":
			if cur == nil {
				return errf(i, "%s outside func", word)
			}
			c, err := parseClause(rest)
			if err != nil {
				return errf(i, "%v", err)
			}
			switch word {
			case "requires":
				cur.Requires = append(cur.Requires, c)
			case "ensures":
				cur.Ensures = append(cur.Ensures, c)
			case "ensures-assumed":
				cur.AssumedEns = append(cur.AssumedEns, c)
			case "unfold-post":
				cur.UnfoldPost = append(cur.UnfoldPost, c)
			case "unfold":
				if curLoop != nil {
					curLoop.Unfold = append(curLoop.Unfold, c)
				} else {
					cur.Unfold = append(cur.Unfold, c)
				}
			case "invariant":
				if curLoop == nil {
					// function-level: an invariant of a function literal over its captured variables
					cur.Invariants = append(cur.Invariants, c)
				} else {
					curLoop.Invariants = append(curLoop.Invariants, c)
				}
			}
		case "assigns":
			if cur == nil {
				return errf(i, "assigns outside func")
			}
			cur.HasAssigns = true
			if rest == "nothing" {
				continue
			}
			for _, part := range splitTop(rest) {
				e, err := parseExpr(part)
				if err != nil {
					return errf(i, "%v", err)
				}
				cur.Assigns = append(cur.Assigns, e)
				cur.AssignsSrc = append(cur.AssignsSrc, part)
			}
		case "refines-assumed":
			if cur == nil {
				return errf(i, "refines-assumed outside func")
			}
			lab, why, ok := strings.Cut(rest, ":")
			if !ok || strings.TrimSpace(why) == "" {
				return errf(i, "refines-assumed needs `<clause label>: <reason>`")
			}
			if cur.AssumedRefine == nil {
				cur.AssumedRefine = map[string]string{}
			}
			cur.AssumedRefine[strings.TrimSpace(lab)] = strings.TrimSpace(why)
		case "decreases":
			if cur == nil {
				return errf(i, "decreases outside func")
			}
			if rest == "_" {
				if curLoop != nil {
					curLoop.NoTerm = true
				}
				continue
			}
			e, err := parseExpr(rest)
			if err != nil {
				return errf(i, "%v", err)
			}
			if curLoop != nil {
				curLoop.Decreases, curLoop.DecSrc = e, rest
			} else {
				cur.Decreases, cur.DecSrc = e, rest
			}
		case "loop":
			if cur == nil {
				return errf(i, "loop outside func")
			}
			n, err := strconv.Atoi(strings.Fields(rest)[0])
			if err != nil {
				return errf(i, "bad loop ordinal")
			}
			curLoop = &LoopContract{}
			cur.Loops[n] = curLoop
		case "at":
			if cur == nil {
				return errf(i, "at outside func")
			}
			whereArg, whereLit := -1, ""
			if m := reWhere.FindStringSubmatch(rest); m != nil {
				whereArg, _ = strconv.Atoi(m[1])
				whereLit = strings.NewReplacer(`\"`, `"`, `\\`, `\`).Replace(m[2])
				rest = strings.Replace(rest, m[0], " ", 1)
			}
			f := strings.Fields(rest)
			k := strings.Index(rest, " assert ")
			isSet := false
			if k < 0 {
				if k = strings.Index(rest, " set "); k >= 0 {
					isSet = true
				}
			}
			if len(f) < 4 || k < 0 || (f[0] != "call" && f[0] != "effect") {
				return errf(i, "expected: at call|effect <target> assert <clause> | set <ghost> = <expr>")
			}
			r := AtRule{Kind: f[0], Target: f[1], Site: -1, WhereArg: whereArg, WhereLit: whereLit}
			if isSet {
				body := rest[k+len(" set "):]
				eq := strings.Index(body, "=")
				if eq < 0 {
					return errf(i, "expected: set <ghost> = <expr>")
				}
				r.Set = strings.TrimSpace(body[:eq])
				if h := strings.LastIndex(r.Target, "#"); h > 0 {
					if n, err := strconv.Atoi(r.Target[h+1:]); err == nil {
						r.Site = n
						r.Target = r.Target[:h]
					}
				}
				c, err := parseClause(strings.TrimSpace(body[eq+1:]))
				if err != nil {
					return errf(i, "%v", err)
				}
				r.C = c
				cur.Ats = append(cur.Ats, r)
				continue
			}
			if h := strings.LastIndex(r.Target, "#"); h > 0 {
				if n, err := strconv.Atoi(r.Target[h+1:]); err == nil {
					r.Site = n
					r.Target = r.Target[:h]
				}
			}
			c, err := parseClause(rest[k+len(" assert "):])
			if err != nil {
				return errf(i, "%v", err)
			}
			r.C = c
			cur.Ats = append(cur.Ats, r)
		case "skolem":
			// skolem name(S1, S2) R
			i := strings.Index(rest, "(")
			j := strings.Index(rest, ")")
			if cur == nil || i < 0 || j < i {
				return errf(i, "expected: skolem name(S1, ...) R")
			}
			sf := &SpecFun{Name: strings.TrimSpace(rest[:i]), Result: strings.TrimSpace(rest[j+1:])}
			sf.Args = splitTop(rest[i+1 : j])
			cur.Skolems = append(cur.Skolems, sf)
		case "trusted":
			cur.Trusted = true
			cur.Abstract = append(cur.Abstract, rest)
		case "pure":
			cur.Pure = true
		case "inline":
			cur.Inline = true
		case "fresh":
			cur.Fresh = true
		case "nilrecv":
			cur.NilRecv = true
		case "nopanic":
			cur.NoPanic = true
		case "arith":
			cur.Checked = true
		case "effect":
			cur.Effects = append(cur.Effects, rest)
		case "abstracted":
			cur.Abstract = append(cur.Abstract, rest)
		default:
			return errf(i, "unknown directive %q", word)
		}
	}
	return nil
}

func (cs *ContractSet) parseSpecFile(file string) error {
	f, err := os.Open(file)
	if err != nil {
		return err
	}
	defer f.Close()
	sc := bufio.NewScanner(f)
	sc.Buffer(make([]byte, 1<<20), 1<<20)
	n := 0
	var funcLines []string
	var funcNos []int
	sp := cs.Spec
	for sc.Scan() {
		n++
		ln := strings.TrimSpace(sc.Text())
		if ln == "" || strings.HasPrefix(ln, "//") {
			continue
		}
		word, rest := ln, ""
		if k := strings.IndexAny(ln, " \t"); k >= 0 {
			word, rest = ln[:k], strings.TrimSpace(ln[k+1:])
		}
		switch word {
		case "sort":
			sp.Sorts = append(sp.Sorts, rest)
		case "opaque":
			f := strings.Fields(rest)
			if len(f) != 2 {
				return fmt.Errorf("%s:%d: opaque <gotype> <sort>", file, n)
			}
			sp.Opaque[f[0]] = f[1]
		case "fun", "hfun":
			// fun name(S1, S2) R
			// hfun name(S1, S2) R reads <heap> <sort>: the value also depends on the named heap as it is in the
			// state the function is mentioned in (old(...) reads the entry heap)
			reads, readsSort := "", ""
			if word == "hfun" {
				k := strings.Index(rest, " reads ")
				if k < 0 {
					return fmt.Errorf("%s:%d: hfun needs `reads <heap> <sort>`", file, n)
				}
				f := strings.SplitN(strings.TrimSpace(rest[k+7:]), " ", 2)
				if len(f) != 2 {
					return fmt.Errorf("%s:%d: hfun needs `reads <heap> <sort>`", file, n)
				}
				reads, readsSort = f[0], strings.TrimSpace(f[1])
				rest = strings.TrimSpace(rest[:k])
			}
			i := strings.Index(rest, "(")
			j := -1
			depth := 0
			for k := i; i >= 0 && k < len(rest); k++ {
				if rest[k] == '(' {
					depth++
				} else if rest[k] == ')' {
					depth--
					if depth == 0 {
						j = k
						break
					}
				}
			}
			if i < 0 || j < i {
				return fmt.Errorf("%s:%d: bad fun", file, n)
			}
			sf := &SpecFun{Name: strings.TrimSpace(rest[:i]), Result: strings.TrimSpace(rest[j+1:])}
			sf.Args = splitTop(rest[i+1 : j])
			sf.Reads, sf.ReadsSort = reads, readsSort
			sp.Funs[sf.Name] = sf
			sp.FunOrder = append(sp.FunOrder, sf.Name)
		case "def":
			// def name(a S, b T) R = expr
			eq := strings.Index(rest, "=")
			i := strings.Index(rest, "(")
			j := strings.Index(rest, ")")
			for j >= 0 && strings.Count(rest[i:j+1], "(") != strings.Count(rest[i:j+1], ")") {
				k := strings.Index(rest[j+1:], ")")
				if k < 0 {
					break
				}
				j += k + 1
			}
			if i < 0 || j < i || eq < j {
				return fmt.Errorf("%s:%d: bad def", file, n)
			}
			eq = j + 1 + strings.Index(rest[j+1:], "=")
			d := &SpecDef{Name: strings.TrimSpace(rest[:i]), Result: strings.TrimSpace(rest[j+1 : eq]), Src: ln}
			for _, p := range splitTop(rest[i+1 : j]) {
				k := strings.IndexAny(p, " \t")
				if k < 0 {
					return fmt.Errorf("%s:%d: bad def param %q", file, n, p)
				}
				d.Params = append(d.Params, QVar{p[:k], strings.TrimSpace(p[k+1:])})
			}
			e, err := parseExpr(rest[eq+1:])
			if err != nil {
				return fmt.Errorf("%s:%d: %v", file, n, err)
			}
			d.Body = e
			sp.Defs[d.Name] = d
			sp.DefOrder = append(sp.DefOrder, d.Name)
		case "axiom":
			c, err := parseClause(rest)
			if err != nil {
				return fmt.Errorf("%s:%d: %v", file, n, err)
			}
			sp.Axioms = append(sp.Axioms, c)
		case "smt":
			sp.RawSMT = append(sp.RawSMT, rest)
		case "ghost":
			f := strings.SplitN(rest, " ", 2)
			if len(f) != 2 {
				return fmt.Errorf("%s:%d: ghost <name> <sort>", file, n)
			}
			sp.Ghosts[f[0]] = strings.TrimSpace(f[1])
			sp.GhostOrd = append(sp.GhostOrd, f[0])
		case "heapgroup":
			f := strings.Fields(rest)
			if len(f) < 2 {
				return fmt.Errorf("%s:%d: heapgroup <name> <prefix>...", file, n)
			}
			sp.Groups[f[0]] = append(sp.Groups[f[0]], f[1:]...)
		case "purepkg":
			for _, p := range strings.Fields(rest) {
				sp.PurePkgs[p] = true
			}
		default:
			funcLines = append(funcLines, ln)
			funcNos = append(funcNos, n)
		}
	}
	return cs.parseContractLines(file, "", funcLines, funcNos, true)
}

// loadRepoContracts reads //@ lines from every contracts_verif.go under root.
func (cs *ContractSet) loadRepoContracts(root, modPath string) ([]string, error) {
	var files []string
	err := filepath.Walk(root, func(p string, info os.FileInfo, err error) error {
		if err != nil {
			return err
		}
		if info.IsDir() && (info.Name() == ".git" || info.Name() == "testdata") {
			return filepath.SkipDir
		}
		if !info.IsDir() && info.Name() == "contracts_verif.go" {
			files = append(files, p)
		}
		return nil
	})
	if err != nil {
		return nil, err
	}
	sort.Strings(files)
	for _, file := range files {
		rel, _ := filepath.Rel(root, filepath.Dir(file))
		pkg := modPath
		if rel != "." {
			pkg = modPath + "/" + filepath.ToSlash(rel)
		}
		bs, err := os.ReadFile(file)
		if err != nil {
			return nil, err
		}
		var lines []string
		var nos []int
		for i, ln := range strings.Split(string(bs), "\n") {
			t := strings.TrimSpace(ln)
			if strings.HasPrefix(t, "//@") {
				lines = append(lines, strings.TrimPrefix(t, "//@"))
				nos = append(nos, i+1)
			}
		}
		if err := cs.parseContractLines(file, pkg, lines, nos, false); err != nil {
			return nil, err
		}
	}
	return files, nil
}
