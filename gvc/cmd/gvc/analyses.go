package main

import (
	"fmt"
	"go/types"
	"sort"
	"strings"

	"golang.org/x/tools/go/ssa"
)

// Solver-free inventory analyses over the go/ssa call graph. They discharge the
// frame part of API-level (trusted, in-repo) contracts: which effects and which
// writes are reachable at all from a given entry point. Sound over-approximations
// (every static call, every repository implementation of an invoked interface
// method, every function literal created); no false negatives, and an alarm only
// if the offending call or store really is in the reachable code.

type analysisResult struct {
	Name   string
	OK     bool
	Desc   string
	Detail []string
}

// reachable returns the repo functions reachable from the roots, with one
// witness predecessor each (for reporting call chains).
func (e *Engine) reachable(roots []string) (map[*ssa.Function]*ssa.Function, []string) {
	pred := map[*ssa.Function]*ssa.Function{}
	var missing []string
	var work []*ssa.Function
	pkgSeen := map[*ssa.Package]bool{}
	var add func(from, to *ssa.Function)
	add = func(from, to *ssa.Function) {
		if to == nil || !e.isRepoFn(to) || to.Blocks == nil {
			return
		}
		if _, ok := pred[to]; !ok {
			pred[to] = from
			work = append(work, to)
			// the package initialiser (package-level variable initialisers, init functions) has run
			// before any function of the package: whatever it computes can flow into the function
			p := to.Pkg
			if p == nil && to.Parent() != nil {
				p = to.Parent().Pkg
			}
			if p != nil && !pkgSeen[p] {
				pkgSeen[p] = true
				if ini := p.Func("init"); ini != nil {
					add(to, ini)
				}
			}
		}
	}
	for _, r := range roots {
		fn := e.funcs[r]
		if fn == nil {
			missing = append(missing, r)
			continue
		}
		add(nil, fn)
	}
	for len(work) > 0 {
		fn := work[len(work)-1]
		work = work[:len(work)-1]
		for _, b := range fn.Blocks {
			for _, in := range b.Instrs {
				switch x := in.(type) {
				case ssa.CallInstruction:
					c := x.Common()
					if c.IsInvoke() {
						for _, impl := range e.implsOf(c.Value.Type().String() + "." + c.Method.Name()) {
							add(fn, impl)
						}
					} else if sf := c.StaticCallee(); sf != nil {
						add(fn, sf)
					}
					// function values passed as arguments or called dynamically are covered by
					// MakeClosure / *ssa.Function operands below
					for _, a := range c.Args {
						if f, ok := a.(*ssa.Function); ok {
							add(fn, f)
						}
					}
					if f, ok := c.Value.(*ssa.Function); ok {
						add(fn, f)
					}
				case *ssa.MakeClosure:
					add(fn, x.Fn.(*ssa.Function))
				}
				// any other operand that is a function constant (stored in a struct, a global, ...)
				for _, op := range in.Operands(nil) {
					if op == nil || *op == nil {
						continue
					}
					if f, ok := (*op).(*ssa.Function); ok {
						add(fn, f)
					}
				}
			}
		}
	}
	return pred, missing
}

func chain(pred map[*ssa.Function]*ssa.Function, fn *ssa.Function) string {
	var parts []string
	for f := fn; f != nil; f = pred[f] {
		parts = append(parts, shortCallee(f.String()))
		if len(parts) > 12 {
			break
		}
	}
	for i, j := 0, len(parts)-1; i < j; i, j = i+1, j-1 {
		parts[i], parts[j] = parts[j], parts[i]
	}
	return strings.Join(parts, " -> ")
}

// effectInventory: no dependency function with an effect tag in `forbidden`, and
// no dependency function of unknown effect (no trusted contract, not in a pure
// package), is called from code reachable from the roots; `allowedIn` lists the
// functions in which forbidden effects are expected (and guarded by at-rules).
func (e *Engine) effectInventory(name string, roots []string, forbidden []string, allowedIn []string) analysisResult {
	res := analysisResult{Name: "inventory/effects/" + name, OK: true,
		Desc: fmt.Sprintf("no call with effect {%s} or unknown effect reachable from %s outside {%s}", strings.Join(forbidden, ","), shortList(roots), shortList(allowedIn))}
	pred, missing := e.reachable(roots)
	for _, m := range missing {
		res.OK = false
		res.Detail = append(res.Detail, "root function not found: "+m)
	}
	allowed := map[string]bool{}
	for _, a := range allowedIn {
		allowed[a] = true
	}
	forb := map[string]bool{}
	for _, f := range forbidden {
		forb[f] = true
	}
	var fns []*ssa.Function
	for f := range pred {
		fns = append(fns, f)
	}
	sort.Slice(fns, func(i, j int) bool { return fns[i].String() < fns[j].String() })
	unknown := map[string]bool{}
	for _, fn := range fns {
		for _, b := range fn.Blocks {
			for _, in := range b.Instrs {
				ci, ok := in.(ssa.CallInstruction)
				if !ok {
					continue
				}
				c := ci.Common()
				var key string
				var con *Contract
				var pkg string
				if c.IsInvoke() {
					key = c.Value.Type().String() + "." + c.Method.Name()
					if len(e.implsOf(key)) > 0 && strings.HasPrefix(key, e.modPath) {
						continue // repo interface: implementations are in the reachable set
					}
					con = e.byKey["iface:"+key]
					if con == nil {
						con = e.ifaceFallback(c)
					}
					if n, ok := c.Value.Type().(*types.Named); ok && n.Obj().Pkg() != nil {
						pkg = n.Obj().Pkg().Path()
					}
				} else if sf := c.StaticCallee(); sf != nil {
					if e.isRepoFn(sf) {
						continue
					}
					if sf.Name() == "init" && sf.Synthetic != "" {
						continue // a dependency's package initialiser, called from the repository package's own
					}
					key = sf.String()
					con = e.byKey[key]
					pkg = fnPkgPath(sf)
				} else if _, isB := c.Value.(*ssa.Builtin); isB {
					continue
				} else {
					// dynamic call of a function value: its possible targets are in the reachable set
					// if they are repo functions; dependency function values are not tracked
					continue
				}
				if con != nil {
					for _, ef := range con.Effects {
						if forb[ef] && !allowed[fn.String()] {
							res.OK = false
							res.Detail = append(res.Detail, fmt.Sprintf("%s calls %s (effect %s): %s", shortCallee(fn.String()), shortCallee(key), ef, chain(pred, fn)))
						}
					}
					continue
				}
				if e.cs.Spec.PurePkgs[pkg] || effectFreePkg(pkg) {
					continue
				}
				if !unknown[key] {
					unknown[key] = true
					res.OK = false
					res.Detail = append(res.Detail, fmt.Sprintf("%s calls %s, which has no trusted contract and is not in an effect-free package: %s", shortCallee(fn.String()), shortCallee(key), chain(pred, fn)))
				}
			}
		}
	}
	res.Desc += fmt.Sprintf(" (%d functions reachable)", len(pred))
	return res
}

// effectFreePkg: standard-library packages none of whose functions touches the
// file system, the standard streams or the process (an explicit, reviewable list).
func effectFreePkg(p string) bool {
	switch p {
	case "reflect", "sort", "strings", "bytes", "unicode", "unicode/utf8", "strconv", "errors", "fmt_pure",
		"go/token", "go/ast", "go/scanner", "go/parser", "go/printer", "go/format", "path", "path/filepath_pure",
		"github.com/google/go-intervals/intervalset", "golang.org/x/tools/go/ast/astutil", "go.uber.org/multierr",
		"sync", "sync/atomic", "math", "math/bits", "slices", "maps", "cmp", "container/list", "iter":
		return true
	}
	return false
}

func shortList(xs []string) string {
	var ys []string
	for _, x := range xs {
		ys = append(ys, shortCallee(x))
	}
	return strings.Join(ys, ", ")
}

// writeInventory: code reachable from the roots never writes into an object of
// one of the immutable types (the compiled program: matchers, replacers, Change,
// Meta, Program, ...), except into memory the writing function itself allocated.
func (e *Engine) writeInventory(name string, roots []string, immutablePkgs []string, scratchTypes []string) analysisResult {
	res := analysisResult{Name: "inventory/writes/" + name, OK: true,
		Desc: fmt.Sprintf("no store into a pre-existing object of a compiled-program type reachable from %s", shortList(roots))}
	pred, missing := e.reachable(roots)
	for _, m := range missing {
		res.OK = false
		res.Detail = append(res.Detail, "root function not found: "+m)
	}
	scratch := map[string]bool{}
	for _, s := range scratchTypes {
		scratch[s] = true
	}
	isImmutable := func(t types.Type) bool {
		n, ok := t.(*types.Named)
		if !ok || n.Obj().Pkg() == nil {
			return false
		}
		if scratch[n.String()] {
			return false
		}
		if _, isStruct := n.Underlying().(*types.Struct); !isStruct {
			return false // only objects (struct instances) can be mutated in place
		}
		for _, p := range immutablePkgs {
			if n.Obj().Pkg().Path() == p {
				return true
			}
		}
		return false
	}
	var rootOf func(v ssa.Value) (ssa.Value, types.Type)
	rootOf = func(v ssa.Value) (ssa.Value, types.Type) {
		// follow address computations to the pointer/slice/map the address derives from;
		// returns that root and the outermost named type written into
		switch x := v.(type) {
		case *ssa.FieldAddr:
			r, t := rootOf(x.X)
			st := mustDeref(x.X.Type())
			if t == nil {
				t = st
			}
			return r, t
		case *ssa.IndexAddr:
			r, t := rootOf(x.X)
			if t == nil {
				switch u := x.X.Type().Underlying().(type) {
				case *types.Slice:
					t = u.Elem()
				case *types.Pointer:
					t = u.Elem()
				}
			}
			return r, t
		}
		return v, nil
	}
	var isLocal func(v ssa.Value, depth int) bool
	isLocal = func(v ssa.Value, depth int) bool {
		if depth > 8 {
			return false
		}
		switch x := v.(type) {
		case *ssa.Alloc, *ssa.MakeSlice, *ssa.MakeMap:
			return true
		case *ssa.FreeVar:
			return true // a captured variable is a local of the enclosing function
		case *ssa.Slice:
			return isLocal(x.X, depth+1)
		case *ssa.Call:
			if b, ok := x.Common().Value.(*ssa.Builtin); ok && b.Name() == "append" {
				return true // append writes only beyond len or into a fresh array; aliasing of spare capacity is C05's concern
			}
		case *ssa.Phi:
			for _, ed := range x.Edges {
				if c, ok := ed.(*ssa.Const); ok && c.Value == nil {
					continue
				}
				if !isLocal(ed, depth+1) {
					return false
				}
			}
			return true
		case *ssa.UnOp:
			// a value loaded from a local variable cell that only ever holds local memory is not tracked: conservative
			return false
		}
		return false
	}
	var fns []*ssa.Function
	for f := range pred {
		fns = append(fns, f)
	}
	sort.Slice(fns, func(i, j int) bool { return fns[i].String() < fns[j].String() })
	for _, fn := range fns {
		for _, b := range fn.Blocks {
			for _, in := range b.Instrs {
				var addr ssa.Value
				var what string
				switch x := in.(type) {
				case *ssa.Store:
					addr, what = x.Addr, "store"
				case *ssa.MapUpdate:
					// maps held in compiled-program objects (dotAssoc, Meta.Vars)
					if u, ok := x.Map.(*ssa.UnOp); ok {
						if fa, ok := u.X.(*ssa.FieldAddr); ok {
							if isImmutable(mustDeref(fa.X.Type())) {
								res.OK = false
								pos := e.fset.Position(in.Pos())
								res.Detail = append(res.Detail, fmt.Sprintf("%s:%d: map update on field of %s in %s: %s", strings.TrimPrefix(pos.Filename, "/repo/"), pos.Line, mustDeref(fa.X.Type()), shortCallee(fn.String()), chain(pred, fn)))
							}
						}
					}
					continue
				default:
					continue
				}
				root, t := rootOf(addr)
				if t == nil {
					if el, ok := deref(addr.Type()); ok {
						t = el
					}
				}
				if t == nil || !isImmutable(t) {
					continue
				}
				if isLocal(root, 0) {
					continue
				}
				res.OK = false
				pos := e.fset.Position(in.Pos())
				res.Detail = append(res.Detail, fmt.Sprintf("%s:%d: %s into %s through %s in %s: %s", strings.TrimPrefix(pos.Filename, "/repo/"), pos.Line, what, t, root.Name(), shortCallee(fn.String()), chain(pred, fn)))
			}
		}
	}
	res.Desc += fmt.Sprintf(" (%d functions reachable)", len(pred))
	return res
}

// ifaceImplInventory: every repository implementation of a contracted repository
// interface method has a contract of its own (and is therefore checked against
// the interface contract by the refinement obligations).
func (e *Engine) ifaceImplInventory(ifaceKey string) analysisResult {
	res := analysisResult{Name: "inventory/impls/" + shortCallee(ifaceKey), OK: true, Desc: "every implementation of " + shortCallee(ifaceKey) + " is under contract"}
	impls := e.implsOf(ifaceKey)
	if len(impls) == 0 {
		res.OK = false
		res.Detail = append(res.Detail, "no implementations found (interface renamed or removed?)")
	}
	for _, f := range impls {
		if e.byKey[f.String()] == nil {
			res.OK = false
			res.Detail = append(res.Detail, "implementation without contract: "+shortCallee(f.String()))
		}
	}
	res.Desc += fmt.Sprintf(" (%d implementations)", len(impls))
	return res
}

// dataKeyInventory discharges the documented panic condition of data.Lookup for every call site in the
// repository ("panics if the type of the value for the pointer is not compatible with the value
// associated with the key"): match data is keyed by values of distinct named key types; for every key
// type, every data.WithValue in the repository stores values of one and the same type under it, and every
// data.Lookup with a key of that type copies into a pointer to exactly that type. Keys and values whose
// static type at the call site is an interface (forwarded values) cannot be classified and are reported.
func (e *Engine) dataKeyInventory() analysisResult {
	res := analysisResult{Name: "inventory/datakeys", OK: true,
		Desc: "for every key type, all data.WithValue sites store one value type and every data.Lookup site reads into a pointer to that type"}
	stored := map[string]map[string]string{} // key type -> value type -> a site
	looked := map[string]map[string]string{} // key type -> pointee type -> a site
	concrete := func(v ssa.Value) (types.Type, bool) {
		if mi, ok := v.(*ssa.MakeInterface); ok {
			return types.Unalias(mi.X.Type()), true // an alias is the same type as what it names
		}
		return nil, false
	}
	var keys []string
	for k := range e.funcs {
		keys = append(keys, k)
	}
	sort.Strings(keys)
	nsites := 0
	for _, k := range keys {
		fn := e.funcs[k]
		if fn.Blocks == nil || !e.isRepoFn(fn) {
			continue
		}
		for _, b := range fn.Blocks {
			for _, in := range b.Instrs {
				ci, ok := in.(ssa.CallInstruction)
				if !ok {
					continue
				}
				sf := ci.Common().StaticCallee()
				if sf == nil {
					continue
				}
				name := sf.String()
				isWith := name == e.modPath+"/internal/data.WithValue"
				isLook := name == e.modPath+"/internal/data.Lookup"
				if !isWith && !isLook {
					continue
				}
				nsites++
				pos := e.fset.Position(in.Pos())
				site := fmt.Sprintf("%s:%d", strings.TrimPrefix(pos.Filename, "/repo/"), pos.Line)
				args := ci.Common().Args
				kt, ok1 := concrete(args[1])
				vt, ok2 := concrete(args[2])
				if !ok1 || !ok2 {
					res.OK = false
					res.Detail = append(res.Detail, site+": key or value of "+shortCallee(name)+" is not boxed at the call site (cannot be classified)")
					continue
				}
				if isLook {
					el, isPtr := deref(vt)
					if !isPtr {
						res.OK = false
						res.Detail = append(res.Detail, site+": data.Lookup target is not a pointer")
						continue
					}
					vt = el
				}
				m := stored
				if isLook {
					m = looked
				}
				if m[kt.String()] == nil {
					m[kt.String()] = map[string]string{}
				}
				if _, seen := m[kt.String()][vt.String()]; !seen {
					m[kt.String()][vt.String()] = site
				}
			}
		}
	}
	var kts []string
	for kt := range stored {
		kts = append(kts, kt)
	}
	for kt := range looked {
		if stored[kt] == nil {
			kts = append(kts, kt)
		}
	}
	sort.Strings(kts)
	for _, kt := range kts {
		if len(stored[kt]) > 1 {
			res.OK = false
			var vs []string
			for vt, s := range stored[kt] {
				vs = append(vs, vt+" ("+s+")")
			}
			sort.Strings(vs)
			res.Detail = append(res.Detail, "values of different types are stored under keys of type "+shortCallee(kt)+": "+strings.Join(vs, ", "))
		}
		for pt, s := range looked[kt] {
			for vt, ws := range stored[kt] {
				if vt != pt {
					res.OK = false
					res.Detail = append(res.Detail, fmt.Sprintf("%s: data.Lookup under a key of type %s reads into *%s but %s stores %s: reflect.Value.Set panics", s, shortCallee(kt), shortCallee(pt), ws, shortCallee(vt)))
				}
			}
		}
	}
	res.Desc += fmt.Sprintf(" (%d call sites)", nsites)
	return res
}


// mapRangeInventory: iteration over a Go map has no fixed order. Every `range` over a map in a repository
// function reachable from the roots is listed; each must be allow-listed with the reason why the order cannot
// show in the result (the entries are sorted afterwards, the body commutes, ...). A new iteration over a map
// on the way from the patch and the file to the result is reported (C14: the result is the same on every run).
func (e *Engine) mapRangeInventory(name string, roots []string, allowedIn []string) analysisResult {
	res := analysisResult{Name: "inventory/maprange/" + name, OK: true,
		Desc: fmt.Sprintf("no iteration over a map (unordered) in a repository function reachable from %s outside {%s}", shortList(roots), shortList(allowedIn))}
	pred, missing := e.reachable(roots)
	for _, m := range missing {
		res.OK = false
		res.Detail = append(res.Detail, "root function not found: "+m)
	}
	allowed := map[string]bool{}
	for _, a := range allowedIn {
		allowed[a] = true
	}
	var fns []*ssa.Function
	for f := range pred {
		fns = append(fns, f)
	}
	sort.Slice(fns, func(i, j int) bool { return fns[i].String() < fns[j].String() })
	n := 0
	for _, fn := range fns {
		if !e.isRepoFn(fn) || fn.Blocks == nil {
			continue
		}
		for _, b := range fn.Blocks {
			for _, in := range b.Instrs {
				r, ok := in.(*ssa.Range)
				if !ok {
					continue
				}
				if _, isMap := r.X.Type().Underlying().(*types.Map); !isMap {
					continue
				}
				n++
				if allowed[fn.String()] {
					continue
				}
				pos := e.fset.Position(in.Pos())
				res.OK = false
				res.Detail = append(res.Detail, fmt.Sprintf("%s ranges over a map at %s:%d (iteration order is not fixed): %s", shortCallee(fn.String()), strings.TrimPrefix(pos.Filename, "/repo/"), pos.Line, chain(pred, fn)))
			}
		}
	}
	res.Desc += fmt.Sprintf(" (%d map iterations seen)", n)
	return res
}
