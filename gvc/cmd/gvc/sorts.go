package main

import (
	"fmt"
	"go/types"
	"sort"
	"strings"
)

// Sorts maps Go types to SMT sorts and collects the declarations they need.
//
//	ints            -> Int     (mathematical; ranges assumed for inputs)
//	bool            -> Bool
//	string          -> Str     (uninterpreted, str.len/str.at/...)
//	pointers, maps, chans, funcs -> Int (references; 0 is nil)
//	slices          -> Slice   (mk-slice arr off len cap)
//	interfaces      -> Iface   (mk-iface typ val)
//	structs         -> one datatype per struct type
//	arrays          -> (Array Int elem)
//	opaque named    -> uninterpreted sort (spec: "opaque reflect.Value RV")
type Sorts struct {
	opaque   map[string]string // Go type string -> sort name
	structs  map[string]*structInfo
	order    []string // struct sort names in dependency order
	extra    map[string]bool
	typeIDs  map[string]int // dynamic type ids for interfaces
	typeList []types.Type
	autoOpaque func(n *types.Named) bool
}

type structInfo struct {
	sort   string
	st     *types.Struct
	fields []string // accessor names
	fsorts []string
	named  string
}

func newSorts() *Sorts {
	return &Sorts{opaque: map[string]string{}, structs: map[string]*structInfo{}, extra: map[string]bool{}, typeIDs: map[string]int{}}
}

func sanitize(s string) string {
	var sb strings.Builder
	for _, r := range s {
		switch {
		case r >= 'a' && r <= 'z', r >= 'A' && r <= 'Z', r >= '0' && r <= '9', r == '_':
			sb.WriteRune(r)
		case r == '*':
			sb.WriteString("P")
		case r == '.', r == '/':
			sb.WriteRune('_')
		case r == '[' || r == ']':
			sb.WriteString("L")
		default:
			sb.WriteRune('_')
		}
	}
	return sb.String()
}

func shortTypeName(t types.Type) string {
	s := types.TypeString(t, func(p *types.Package) string {
		path := p.Path()
		path = strings.TrimPrefix(path, "github.com/uber-go/gopatch/internal/")
		path = strings.TrimPrefix(path, "github.com/uber-go/gopatch")
		if path == "" {
			return "main"
		}
		if i := strings.LastIndex(path, "/"); i >= 0 && !strings.HasPrefix(p.Path(), "github.com/uber-go/gopatch") {
			path = path[i+1:]
		}
		return path
	})
	return sanitize(s)
}

func (s *Sorts) sortOf(t types.Type) string {
	if n, ok := t.(*types.Named); ok {
		if o, ok := s.opaque[n.String()]; ok {
			s.extra[o] = true
			return o
		}
		// dependency struct types whose fields the repository never touches are opaque
		if _, isStruct := n.Underlying().(*types.Struct); isStruct && s.autoOpaque != nil && s.autoOpaque(n) {
			o := "O_" + shortTypeName(n)
			s.opaque[n.String()] = o
			s.extra[o] = true
			return o
		}
	}
	if a, ok := t.(*types.Alias); ok {
		return s.sortOf(types.Unalias(a))
	}
	switch u := t.Underlying().(type) {
	case *types.Basic:
		switch {
		case u.Info()&types.IsInteger != 0:
			return "Int"
		case u.Info()&types.IsBoolean != 0:
			return "Bool"
		case u.Info()&types.IsString != 0:
			return "Str"
		case u.Info()&types.IsFloat != 0:
			return "Real"
		case u.Kind() == types.UnsafePointer:
			return "Int"
		case u.Kind() == types.UntypedNil:
			return "Int"
		}
		return "Int"
	case *types.Pointer, *types.Map, *types.Chan, *types.Signature:
		return "Int"
	case *types.Slice:
		return "Slice"
	case *types.Interface:
		return "Iface"
	case *types.Array:
		return "(Array Int " + s.sortOf(u.Elem()) + ")"
	case *types.Struct:
		return s.structSort(t, u)
	case *types.Tuple:
		return "Tuple"
	}
	return "Int"
}

func (s *Sorts) structSort(t types.Type, st *types.Struct) string {
	name := "S_" + shortTypeName(t)
	if _, ok := t.(*types.Named); !ok {
		name = "S_anon_" + sanitize(st.String())
	}
	if _, ok := s.structs[name]; ok {
		return name
	}
	info := &structInfo{sort: name, st: st, named: t.String()}
	s.structs[name] = info // break recursion (only via pointers, which are Int)
	for i := 0; i < st.NumFields(); i++ {
		f := st.Field(i)
		fname := sanitize(f.Name())
		if f.Name() == "_" {
			fname = fmt.Sprintf("blank%d", i)
		}
		info.fields = append(info.fields, fmt.Sprintf("%s_%s", name, fname))
		info.fsorts = append(info.fsorts, s.sortOf(f.Type()))
	}
	s.order = append(s.order, name)
	return name
}

func (s *Sorts) structInfoOf(t types.Type) *structInfo {
	st, ok := t.Underlying().(*types.Struct)
	if !ok {
		return nil
	}
	if n, ok := t.(*types.Named); ok {
		if _, op := s.opaque[n.String()]; op {
			return nil
		}
		if s.autoOpaque != nil && s.autoOpaque(n) {
			s.sortOf(t)
			return nil
		}
	}
	name := s.structSort(t, st)
	return s.structs[name]
}

// typeID gives a stable-per-run positive integer to a concrete dynamic type.
func (s *Sorts) typeID(t types.Type) int {
	k := t.String()
	if id, ok := s.typeIDs[k]; ok {
		return id
	}
	id := len(s.typeIDs) + 1
	s.typeIDs[k] = id
	s.typeList = append(s.typeList, t)
	return id
}

// zero value term of a Go type.
func (s *Sorts) zero(t types.Type) string {
	so := s.sortOf(t)
	switch so {
	case "Int":
		return "0"
	case "Real":
		return "0.0"
	case "Bool":
		return "false"
	case "Str":
		return "str.empty"
	case "Slice":
		return "(mk-slice 0 0 0 0)"
	case "Iface":
		return "iface-nil"
	}
	if info := s.structInfoOf(t); info != nil {
		if info.st.NumFields() == 0 {
			return "mk-" + info.sort
		}
		var parts []string
		for i := 0; i < info.st.NumFields(); i++ {
			parts = append(parts, s.zero(info.st.Field(i).Type()))
		}
		return "(mk-" + info.sort + " " + strings.Join(parts, " ") + ")"
	}
	if a, ok := t.Underlying().(*types.Array); ok {
		return fmt.Sprintf("((as const %s) %s)", so, s.zero(a.Elem()))
	}
	// opaque sort: a distinguished zero constant
	s.extra[so] = true
	return "zero_" + so
}

// prelude emits the sort/datatype declarations.
func (s *Sorts) prelude() string {
	var sb strings.Builder
	sb.WriteString(basePrelude)
	var ex []string
	for k := range s.extra {
		ex = append(ex, k)
	}
	sort.Strings(ex)
	for _, k := range ex {
		if k == "Str" {
			continue
		}
		fmt.Fprintf(&sb, "(declare-sort %s 0)\n(declare-const zero_%s %s)\n", k, k, k)
	}
	for _, name := range s.order {
		info := s.structs[name]
		fmt.Fprintf(&sb, "(declare-datatypes ((%s 0)) (((mk-%s", name, name)
		for i, f := range info.fields {
			fmt.Fprintf(&sb, " (%s %s)", f, info.fsorts[i])
		}
		sb.WriteString("))))\n")
	}
	return sb.String()
}

const basePrelude = `(set-option :smt.mbqi false)
(set-option :auto_config false)
(declare-sort Str 0)
(declare-datatypes ((Slice 0)) (((mk-slice (s-arr Int) (s-off Int) (s-len Int) (s-cap Int)))))
(declare-datatypes ((Iface 0)) (((mk-iface (i-typ Int) (i-val Int)))))
(define-fun iface-nil () Iface (mk-iface 0 0))
(declare-const str.empty Str)
(declare-fun str.len (Str) Int)
(declare-fun str.at (Str Int) Int)
(declare-fun str.sub (Str Int Int) Str)
(declare-fun str.cat (Str Str) Str)
(assert (= (str.len str.empty) 0))
(assert (forall ((s Str)) (! (>= (str.len s) 0) :pattern ((str.len s)))))
(assert (forall ((s Str) (i Int)) (! (and (<= 0 (str.at s i)) (<= (str.at s i) 255)) :pattern ((str.at s i)))))
(assert (forall ((s Str) (i Int) (j Int)) (! (=> (and (<= 0 i) (<= i j) (<= j (str.len s))) (= (str.len (str.sub s i j)) (- j i))) :pattern ((str.sub s i j)))))
(assert (forall ((s Str) (i Int) (j Int) (k Int)) (! (=> (and (<= 0 i) (<= i j) (<= j (str.len s)) (<= 0 k) (< k (- j i))) (= (str.at (str.sub s i j) k) (str.at s (+ i k)))) :pattern ((str.at (str.sub s i j) k)))))
(assert (forall ((a Str) (b Str)) (! (= (str.len (str.cat a b)) (+ (str.len a) (str.len b))) :pattern ((str.cat a b)))))
(assert (forall ((a Str) (b Str) (k Int)) (! (= (str.at (str.cat a b) k) (ite (< k (str.len a)) (str.at a k) (str.at b (- k (str.len a))))) :pattern ((str.at (str.cat a b) k)))))
`
