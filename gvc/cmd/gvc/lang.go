package main

import (
	"fmt"
	"strings"
	"unicode"
)

// ---- contract expression language -------------------------------------------------
//
// A Go-expression subset plus ==>, <==>, forall/exists, old(e), ite(c,a,b).

type Expr interface{ String() string }

type (
	EIdent struct{ Name string }
	EInt   struct{ Val string }
	EStr   struct{ Val string }
	EBool  struct{ Val bool }
	ENil   struct{}
	EUn    struct {
		Op string
		X  Expr
	}
	EBin struct {
		Op   string
		L, R Expr
	}
	ECall struct {
		Fn   string
		Args []Expr
	}
	ESel struct {
		X     Expr
		Field string
	}
	EIndex struct{ X, I Expr }
	ESlice struct{ X, Lo, Hi Expr }
	EQuant struct {
		Forall   bool
		Vars     []QVar
		Triggers [][]Expr
		Body     Expr
	}
)

type QVar struct{ Name, Type string }

func (e EIdent) String() string { return e.Name }
func (e EInt) String() string   { return e.Val }
func (e EStr) String() string   { return fmt.Sprintf("%q", e.Val) }
func (e EBool) String() string  { return fmt.Sprint(e.Val) }
func (e ENil) String() string   { return "nil" }
func (e EUn) String() string    { return e.Op + e.X.String() }
func (e EBin) String() string   { return "(" + e.L.String() + " " + e.Op + " " + e.R.String() + ")" }
func (e ECall) String() string {
	var a []string
	for _, x := range e.Args {
		a = append(a, x.String())
	}
	return e.Fn + "(" + strings.Join(a, ", ") + ")"
}
func (e ESel) String() string   { return e.X.String() + "." + e.Field }
func (e EIndex) String() string { return e.X.String() + "[" + e.I.String() + "]" }
func (e ESlice) String() string {
	lo, hi := "", ""
	if e.Lo != nil {
		lo = e.Lo.String()
	}
	if e.Hi != nil {
		hi = e.Hi.String()
	}
	return e.X.String() + "[" + lo + ":" + hi + "]"
}
func (e EQuant) String() string {
	q := "exists"
	if e.Forall {
		q = "forall"
	}
	var vs []string
	for _, v := range e.Vars {
		vs = append(vs, v.Name+" "+v.Type)
	}
	return "(" + q + " " + strings.Join(vs, ", ") + " :: " + e.Body.String() + ")"
}

type tok struct {
	kind string // id int str chr op eof
	s    string
}

func lex(src string) ([]tok, error) {
	var out []tok
	rs := []rune(src)
	i := 0
	for i < len(rs) {
		c := rs[i]
		switch {
		case unicode.IsSpace(c):
			i++
		case unicode.IsLetter(c) || c == '_' || c == '$' || c == '#':
			j := i + 1
			for j < len(rs) && (unicode.IsLetter(rs[j]) || unicode.IsDigit(rs[j]) || rs[j] == '_' || rs[j] == '$') {
				j++
			}
			out = append(out, tok{"id", string(rs[i:j])})
			i = j
		case unicode.IsDigit(c):
			j := i + 1
			for j < len(rs) && (unicode.IsDigit(rs[j]) || rs[j] == 'x' || (rs[j] >= 'a' && rs[j] <= 'f')) {
				j++
			}
			out = append(out, tok{"int", string(rs[i:j])})
			i = j
		case c == '"':
			j := i + 1
			var sb strings.Builder
			for j < len(rs) && rs[j] != '"' {
				if rs[j] == '\\' && j+1 < len(rs) {
					j++
					switch rs[j] {
					case 'n':
						sb.WriteRune('\n')
					case 't':
						sb.WriteRune('\t')
					default:
						sb.WriteRune(rs[j])
					}
				} else {
					sb.WriteRune(rs[j])
				}
				j++
			}
			if j >= len(rs) {
				return nil, fmt.Errorf("unterminated string in %q", src)
			}
			out = append(out, tok{"str", sb.String()})
			i = j + 1
		case c == '\'':
			// character literal -> int
			j := i + 1
			var r rune
			if j < len(rs) && rs[j] == '\\' && j+1 < len(rs) {
				switch rs[j+1] {
				case 'n':
					r = '\n'
				case 't':
					r = '\t'
				case 'r':
					r = '\r'
				default:
					r = rs[j+1]
				}
				j += 2
			} else if j < len(rs) {
				r = rs[j]
				j++
			}
			if j >= len(rs) || rs[j] != '\'' {
				return nil, fmt.Errorf("bad char literal in %q", src)
			}
			out = append(out, tok{"int", fmt.Sprint(int(r))})
			i = j + 1
		default:
			for _, op := range []string{"<==>", "==>", "::", "==", "!=", "<=", ">=", "&&", "||"} {
				if strings.HasPrefix(string(rs[i:min(i+len(op), len(rs))]), op) {
					out = append(out, tok{"op", op})
					i += len(op)
					goto next
				}
			}
			if strings.ContainsRune("<>!+-*/%()[]{},.:", c) {
				out = append(out, tok{"op", string(c)})
				i++
			} else {
				return nil, fmt.Errorf("unexpected %q in %q", string(c), src)
			}
		next:
		}
	}
	out = append(out, tok{"eof", ""})
	return out, nil
}

type parser struct {
	toks []tok
	p    int
	src  string
}

func parseExpr(src string) (e Expr, err error) {
	toks, err := lex(src)
	if err != nil {
		return nil, err
	}
	ps := &parser{toks: toks, src: src}
	defer func() {
		if r := recover(); r != nil {
			if pe, ok := r.(parseErr); ok {
				err = fmt.Errorf("%s in %q", string(pe), src)
				return
			}
			panic(r)
		}
	}()
	e = ps.iff()
	if ps.peek().kind != "eof" {
		ps.fail("trailing input at %q", ps.peek().s)
	}
	return e, nil
}

type parseErr string

func (p *parser) fail(f string, a ...any) { panic(parseErr(fmt.Sprintf(f, a...))) }
func (p *parser) peek() tok               { return p.toks[p.p] }
func (p *parser) next() tok               { t := p.toks[p.p]; p.p++; return t }
func (p *parser) isOp(s string) bool      { t := p.peek(); return t.kind == "op" && t.s == s }
func (p *parser) accept(s string) bool {
	if p.isOp(s) {
		p.p++
		return true
	}
	return false
}
func (p *parser) expect(s string) {
	if !p.accept(s) {
		p.fail("expected %q, found %q", s, p.peek().s)
	}
}

func (p *parser) iff() Expr {
	l := p.implies()
	for p.accept("<==>") {
		r := p.implies()
		l = EBin{"<==>", l, r}
	}
	return l
}
func (p *parser) implies() Expr {
	l := p.or()
	if p.accept("==>") {
		r := p.implies()
		return EBin{"==>", l, r}
	}
	return l
}
func (p *parser) or() Expr {
	l := p.and()
	for p.accept("||") {
		l = EBin{"||", l, p.and()}
	}
	return l
}
func (p *parser) and() Expr {
	l := p.cmp()
	for p.accept("&&") {
		l = EBin{"&&", l, p.cmp()}
	}
	return l
}
func (p *parser) cmp() Expr {
	l := p.add()
	for {
		t := p.peek()
		if t.kind == "op" && (t.s == "==" || t.s == "!=" || t.s == "<" || t.s == "<=" || t.s == ">" || t.s == ">=") {
			p.p++
			l = EBin{t.s, l, p.add()}
			continue
		}
		return l
	}
}
func (p *parser) add() Expr {
	l := p.mul()
	for {
		t := p.peek()
		if t.kind == "op" && (t.s == "+" || t.s == "-") {
			p.p++
			l = EBin{t.s, l, p.mul()}
			continue
		}
		return l
	}
}
func (p *parser) mul() Expr {
	l := p.unary()
	for {
		t := p.peek()
		if t.kind == "op" && (t.s == "*" || t.s == "/" || t.s == "%") {
			p.p++
			l = EBin{t.s, l, p.unary()}
			continue
		}
		return l
	}
}
func (p *parser) unary() Expr {
	if p.accept("!") {
		return EUn{"!", p.unary()}
	}
	if p.accept("-") {
		return EUn{"-", p.unary()}
	}
	if p.accept("*") {
		return EUn{"*", p.unary()}
	}
	return p.postfix()
}
func (p *parser) postfix() Expr {
	e := p.primary()
	for {
		switch {
		case p.accept("."):
			t := p.next()
			if t.kind != "id" {
				p.fail("expected field name after '.'")
			}
			e = ESel{e, t.s}
		case p.accept("["):
			var lo, hi Expr
			if p.accept(":") {
				if !p.isOp("]") {
					hi = p.iff()
				}
				p.expect("]")
				e = ESlice{e, nil, hi}
				continue
			}
			lo = p.iff()
			if p.accept(":") {
				if !p.isOp("]") {
					hi = p.iff()
				}
				p.expect("]")
				e = ESlice{e, lo, hi}
				continue
			}
			p.expect("]")
			e = EIndex{e, lo}
		default:
			return e
		}
	}
}
func (p *parser) primary() Expr {
	t := p.next()
	switch t.kind {
	case "int":
		return EInt{t.s}
	case "str":
		return EStr{t.s}
	case "id":
		switch t.s {
		case "true":
			return EBool{true}
		case "false":
			return EBool{false}
		case "nil":
			return ENil{}
		case "forall", "exists":
			q := EQuant{Forall: t.s == "forall"}
			for {
				n := p.next()
				ty := p.next()
				if n.kind != "id" || ty.kind != "id" {
					p.fail("bad quantifier variable")
				}
				q.Vars = append(q.Vars, QVar{n.s, ty.s})
				if !p.accept(",") {
					break
				}
			}
			for p.accept("{") {
				var tr []Expr
				for {
					tr = append(tr, p.iff())
					if !p.accept(",") {
						break
					}
				}
				p.expect("}")
				q.Triggers = append(q.Triggers, tr)
			}
			p.expect("::")
			q.Body = p.iff()
			return q
		}
		name := t.s
		// qualified names pkg.Func( ... ) are handled as ESel then call? keep simple:
		if p.isOp("(") {
			p.p++
			var args []Expr
			if !p.isOp(")") {
				for {
					args = append(args, p.iff())
					if !p.accept(",") {
						break
					}
				}
			}
			p.expect(")")
			return ECall{name, args}
		}
		return EIdent{name}
	case "op":
		if t.s == "(" {
			e := p.iff()
			p.expect(")")
			return e
		}
	}
	p.fail("unexpected token %q", t.s)
	return nil
}
