package diff

// Replay harness for the contracts of internal/diff (injected with `go test -overlay`; nothing is written
// to the repository). It looks for an input on which the real Difference breaks what the contracts state:
//   - the callback is only asked about pairs inside both lists,
//   - the script consumes both lists exactly,
//   - an entry marked identical speaks about a pair the callback calls equal, an entry marked modified about
//     a pair it calls similar but not equal.
// All callback tables over {equal, similar, different} for lists of up to 3 x 3 elements are enumerated, then
// random tables for lists of up to 7 x 7 elements (bounded: this is the search for a failing input, not the proof).

import (
	"fmt"
	"math/rand"
	"testing"
)

func gvcResultOf(c int) Result {
	switch c {
	case 0:
		return Result{NumSame: 1} // equal
	case 1:
		return Result{NumSame: 1, NumDiff: 1} // similar, not equal
	}
	return Result{NumDiff: 2} // neither
}

func gvcCheckOne(nx, ny int, tab []int) (msg string) {
	defer func() {
		if r := recover(); r != nil {
			msg = fmt.Sprintf("panic: %v", r)
		}
	}()
	bad := ""
	f := func(ix, iy int) Result {
		if ix < 0 || ix >= nx || iy < 0 || iy >= ny {
			if bad == "" {
				bad = fmt.Sprintf("callback asked about the pair (%d, %d) outside the lists", ix, iy)
			}
			return Result{NumDiff: 2}
		}
		return gvcResultOf(tab[ix*ny+iy])
	}
	es := Difference(nx, ny, f)
	if bad != "" {
		return bad
	}
	x, y := 0, 0
	for k, e := range es {
		switch e {
		case Identity, Modified:
			if x >= nx || y >= ny {
				return fmt.Sprintf("entry %d of script %v reaches past the end of a list", k, es)
			}
			r := gvcResultOf(tab[x*ny+y])
			if e == Identity && !r.Equal() {
				return fmt.Sprintf("entry %d of script %v marks the pair (%d, %d) identical, the callback does not call it equal", k, es, x, y)
			}
			if e == Modified && (r.Equal() || !r.Similar()) {
				return fmt.Sprintf("entry %d of script %v marks the pair (%d, %d) modified, the callback calls it %v", k, es, x, y, map[bool]string{true: "equal", false: "not similar"}[r.Equal()])
			}
			x++
			y++
		case UniqueX:
			x++
		case UniqueY:
			y++
		default:
			return fmt.Sprintf("entry %d of script %v is not an edit type", k, es)
		}
	}
	if x != nx || y != ny {
		return fmt.Sprintf("script %v consumes (%d, %d) elements of lists of (%d, %d)", es, x, y, nx, ny)
	}
	return ""
}

func TestGvcReplay(t *testing.T) {
	report := func(nx, ny int, tab []int, msg string) {
		fmt.Printf("GVC-REPLAY-VIOLATION: Difference(nx=%d, ny=%d, callback table by rows (0 equal, 1 similar, 2 different) %v): %s\n", nx, ny, tab, msg)
		t.Fail() // go test shows the output of failing tests only
	}
	found := 0
	for nx := 0; nx <= 3 && found < 3; nx++ {
		for ny := 0; ny <= 3 && found < 3; ny++ {
			n := nx * ny
			tab := make([]int, n)
			total := 1
			for i := 0; i < n; i++ {
				total *= 3
			}
			for c := 0; c < total && found < 3; c++ {
				v := c
				for i := 0; i < n; i++ {
					tab[i] = v % 3
					v /= 3
				}
				if msg := gvcCheckOne(nx, ny, tab); msg != "" {
					report(nx, ny, append([]int(nil), tab...), msg)
					found++
				}
			}
		}
	}
	rng := rand.New(rand.NewSource(1))
	for it := 0; it < 200000 && found < 3; it++ {
		nx, ny := rng.Intn(8), rng.Intn(8)
		tab := make([]int, nx*ny)
		bias := rng.Intn(4)
		for i := range tab {
			if rng.Intn(4) < bias {
				tab[i] = 2
			} else {
				tab[i] = rng.Intn(3)
			}
		}
		if msg := gvcCheckOne(nx, ny, tab); msg != "" {
			report(nx, ny, tab, msg)
			found++
		}
	}
}
