package patch_test

// Replay harness (injected by gvc with `go test -overlay`; never part of the repository).
// Obligation family: pgo/augment.rewrite (the patch source is rewritten into valid Go by visiting the
// augmentations in start-offset order). Runs the real patch.Parse on well-formed patches with many
// elisions in nested function-literal parameter lists (augmentations are recorded out of order there),
// with and without an elision as the very first token (three augmentations with the same start offset).
// Reports a panic, and a rejection of a patch whose shape is valid.

import (
	"fmt"
	"math/rand"
	"os"
	"strings"
	"testing"

	"github.com/uber-go/gopatch/patch"
)

func gvcGenFunc(r *rand.Rand, depth int) string {
	var sb strings.Builder
	sb.WriteString("func(")
	n := 1 + r.Intn(6)
	for i := 0; i < n; i++ {
		if i > 0 {
			sb.WriteString(", ")
		}
		switch k := r.Intn(3); {
		case k == 0 || depth > 3:
			sb.WriteString("...")
		case k == 1:
			sb.WriteString("int")
		default:
			sb.WriteString(gvcGenFunc(r, depth+1))
		}
	}
	sb.WriteString(")")
	return sb.String()
}

func TestGvcReplay(t *testing.T) {
	r := rand.New(rand.NewSource(1))
	found := 0
	for it := 0; it < 4000 && found < 3; it++ {
		lit := gvcGenFunc(r, 0)
		var text string
		if it%2 == 0 {
			// a statement-list patch that begins with an elision
			text = "@@\n@@\n ...\n-foo(" + lit + " {})\n+bar()\n"
		} else {
			text = "@@\n@@\n-foo(" + lit + " {})\n+bar()\n"
		}
		msg := func() (msg string) {
			defer func() {
				if e := recover(); e != nil {
					msg = fmt.Sprintf("panics: %v", e)
				}
			}()
			if _, err := patch.Parse("replay.patch", []byte(text)); err != nil {
				return fmt.Sprintf("rejects a well-formed patch: %v", err)
			}
			return ""
		}()
		if msg != "" {
			found++
			fmt.Fprintf(os.Stdout, "GVC-REPLAY-VIOLATION: patch.Parse %s on patch text %q (%d elisions)\n", msg, text, strings.Count(text, "..."))
		}
	}
	if found > 0 {
		t.Fail() // so that go test shows the lines above
	}
}
