package patch_test

// Replay harness (injected by gvc with `go test -overlay`; never part of the repository).
// Runs the real patch.Parse on truncations of well-formed patches under a watchdog.

import (
	"fmt"
	"os"
	"testing"
	"time"

	"github.com/uber-go/gopatch/patch"
)

var gvcSeeds = []string{
	"@@\n@@\n-func (r *T) M(a int, b ...string) (c int, err error) {\n+func (r *T) N(a int, b ...string) (c int, err error) {\n   ...\n }\n",
	"@@\nvar x expression\n@@\n-x := func(a, b int) (int, error) { return f(a, ...) }\n+x := g\n",
	"@@\nvar f identifier\n@@\n-func f(...) (...) { ... }\n+func f(...) (...) { ... }\n",
	"@@\n@@\n package foo\n import \"fmt\"\n import (\n  a \"b\"\n )\n-fmt.Println(...)\n+fmt.Print(...)\n",
	"@ name @\nvar x, y identifier\nvar z expression\n@@\n-x.y(z)\n+y.x(z)\n",
}

func TestGvcReplay(t *testing.T) {
	seen := map[string]bool{}
	found := 0
	for _, seed := range gvcSeeds {
		for cut := len(seed); cut >= 0 && found < 3; cut-- {
			in := seed[:cut]
			if seen[in] {
				continue
			}
			seen[in] = true
			done := make(chan string, 1)
			go func() {
				defer func() {
					if r := recover(); r != nil {
						done <- fmt.Sprintf("panic: %v", r)
					}
				}()
				_, _ = patch.Parse("replay.patch", []byte(in))
				done <- ""
			}()
			select {
			case msg := <-done:
				if msg != "" {
					found++
					fmt.Fprintf(os.Stdout, "GVC-REPLAY-VIOLATION: patch.Parse panics on patch text %q: %s\n", in, msg)
				}
			case <-time.After(3 * time.Second):
				found++
				fmt.Fprintf(os.Stdout, "GVC-REPLAY-VIOLATION: patch.Parse does not return within 3s on patch text %q (the token scanner loops at EOF)\n", in)
			}
		}
	}
	if found > 0 {
		os.Exit(1) // leave looping goroutines behind
	}
}
