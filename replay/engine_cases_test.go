package patch_test

// Replay harness (injected by gvc with `go test -overlay`; never part of the repository).
// A corpus of (patch, source, expected result) cases written from the property statements
// (C01 syntactic instances and near-misses, C02 metavariables, C04 elision, C05 preservation,
// C10 guards, C11 imports, C17 comments). It runs the real patch.Parse / File.Apply and reports
// every case whose result differs. Cases that correspond to recorded known findings are not here.

import (
	"encoding/json"
	"fmt"
	"os"
	"regexp"
	"strings"
	"testing"
	"time"

	"github.com/uber-go/gopatch/patch"
)

type gvcCase struct {
	props string // property ids the case speaks to
	name  string
	patch string
	src   string
	want  string // expected output ("" = unchanged input bytes)
}

var gvcWS = regexp.MustCompile(`\s+`)

func gvcNorm(s string) string { return strings.TrimSpace(gvcWS.ReplaceAllString(s, " ")) }

var gvcCases = []gvcCase{
	// ---- C01: only syntactic instances; every instance --------------------------------------------
	{"C01", "variadic-call-is-not-a-plain-call", "@@\nvar x expression\n@@\n-log(x)\n+log2(x)\n", "package a\nfunc f(args []int) { log(args...) }\n", ""},
	{"C01", "plain-call-is-an-instance", "@@\nvar x expression\n@@\n-log(x)\n+log2(x)\n", "package a\nfunc f(args []int) { log(args) }\n", "package a\nfunc f(args []int) { log2(args) }\n"},
	{"C01", "alias-decl-is-not-a-type-decl", "@@\n@@\n-type T OldImpl\n+type T NewImpl\n", "package a\ntype T = OldImpl\n", ""},
	{"C01", "type-decl-is-an-instance", "@@\n@@\n-type T OldImpl\n+type T NewImpl\n", "package a\ntype T OldImpl\n", "package a\ntype T NewImpl\n"},
	{"C01", "different-operator", "@@\nvar a, b expression\n@@\n-a + b\n+add(a, b)\n", "package a\nvar x = 1 - 2\n", ""},
	{"C01", "different-literal", "@@\n@@\n-foo(1)\n+bar(1)\n", "package a\nfunc f() { foo(2) }\n", ""},
	{"C01", "extra-argument", "@@\n@@\n-foo(1)\n+bar(1)\n", "package a\nfunc f() { foo(1, 2) }\n", ""},
	{"C01", "channel-direction", "@@\n@@\n-var c chan<- int\n+var c chan int\n", "package a\nvar c <-chan int\n", ""},
	{"C01", "every-instance-any-depth", "@@\n@@\n-foo()\n+bar()\n", "package a\nfunc f() {\n\tfoo()\n\tif x {\n\t\tgo func() { foo() }()\n\t}\n\tswitch y {\n\tcase 1:\n\t\tfoo()\n\t}\n}\nfunc g() { foo() }\n",
		"package a\nfunc f() {\n\tbar()\n\tif x {\n\t\tgo func() { bar() }()\n\t}\n\tswitch y {\n\tcase 1:\n\t\tbar()\n\t}\n}\nfunc g() { bar() }\n"},
	{"C01", "statement-pattern-in-nested-blocks", "@@\nvar x identifier\n@@\n-defer x.Close()\n+defer closeIt(x)\n", "package a\nfunc f() {\n\tdefer a.Close()\n\tif c {\n\t\tdefer b.Close()\n\t}\n\tfor {\n\t\tdefer d.Close()\n\t}\n}\n",
		"package a\nfunc f() {\n\tdefer closeIt(a)\n\tif c {\n\t\tdefer closeIt(b)\n\t}\n\tfor {\n\t\tdefer closeIt(d)\n\t}\n}\n"},
	// ---- C02: metavariables ----------------------------------------------------------------------------
	{"C02", "identifier-metavar-does-not-match-expression", "@@\nvar x identifier\n@@\n-foo(x)\n+bar(x)\n", "package a\nfunc f() { foo(a.b) }\n", ""},
	{"C02", "expression-metavar-matches-any-expression", "@@\nvar x expression\n@@\n-foo(x)\n+bar(x)\n", "package a\nfunc f() { foo(a.b + 1) }\n", "package a\nfunc f() { bar(a.b + 1) }\n"},
	{"C02", "undeclared-name-is-ordinary-code", "@@\n@@\n-foo(x)\n+bar(x)\n", "package a\nfunc f() { foo(y) }\n", ""},
	{"C02", "repeated-metavar-must-be-identical", "@@\nvar x expression\n@@\n-same(x, x)\n+one(x)\n", "package a\nfunc f() { same(a, b); same(c, c) }\n", "package a\nfunc f() { same(a, b); one(c) }\n"},
	{"C02", "repeated-metavar-differs-in-variadic-dots", "@@\nvar x expression\n@@\n-same(x, x)\n+one(x)\n", "package a\nfunc f() { same(g(xs...), g(xs)) }\n", ""},
	{"C02", "failed-attempt-leaves-no-binding", "@@\nvar x expression\n@@\n-f(..., x, x)\n+g(x)\n", "package a\nfunc h() { f(a, b, b) }\n", "package a\nfunc h() { g(b) }\n"},
	{"C02", "sites-bind-independently", "@@\nvar x expression\n@@\n-isNil(x)\n+x == nil\n", "package a\nfunc h() bool { return isNil(p) && isNil(q.next) }\n", "package a\nfunc h() bool { return p == nil && q.next == nil }\n"},
	// ---- C04: elision ----------------------------------------------------------------------------------
	{"C04", "elision-zero-elements", "@@\n@@\n-foo(a, ...)\n+bar(a, ...)\n", "package a\nfunc f() { foo(a) }\n", "package a\nfunc f() { bar(a) }\n"},
	{"C04", "elision-middle", "@@\n@@\n-foo(a, ..., z)\n+bar(a, ..., z)\n", "package a\nfunc f() { foo(a, z); foo(a, 1, 2, z) }\n", "package a\nfunc f() { bar(a, z); bar(a, 1, 2, z) }\n"},
	{"C04", "list-must-be-consumed", "@@\n@@\n func f() {\n   ...\n-  foo()\n+  bar()\n }\n", "package a\nfunc f() {\n\ta()\n\tfoo()\n\tb()\n}\n", ""},
	{"C04", "elided-statements-reappear-in-order", "@@\n@@\n func f() {\n   ...\n-  foo()\n+  bar()\n+  baz()\n   ...\n }\n", "package a\nfunc f() {\n\ta()\n\tfoo()\n\tb()\n\tc()\n}\n", "package a\nfunc f() {\n\ta()\n\tbar()\n\tbaz()\n\tb()\n\tc()\n}\n"},
	{"C04", "respaced-variadic-is-not-an-elision", "@@\n@@\n-func f(args ... string) {}\n+func g(args ... string) {}\n", "package a\nfunc f(args ...string) {}\n", "package a\nfunc g(args ...string) {}\n"},
	// ---- C10: guards -------------------------------------------------------------------------------------
	{"C10", "import-guard-fails-without-import", "@@\n@@\n import \"fmt\"\n\n-fmt.Println(...)\n+fmt.Print(...)\n", "package a\nfunc f() { fmt.Println(1) }\n", ""},
	{"C10", "unnamed-guard-does-not-match-named-import", "@@\n@@\n import \"fmt\"\n\n-fmt.Println(...)\n+fmt.Print(...)\n", "package a\nimport fmt \"fmt\"\nfunc f() { fmt.Println(1) }\n", ""},
	{"C10", "literal-name-guard", "@@\n@@\n import f \"fmt\"\n\n-f.Println(...)\n+f.Print(...)\n", "package a\nimport g \"fmt\"\nfunc h() { f.Println(1) }\n", ""},
	{"C10", "package-guard", "@@\n@@\n package foo\n\n-bar()\n+baz()\n", "package foo_test\nfunc f() { bar() }\n", ""},
	{"C10", "package-guard-holds", "@@\n@@\n package foo\n\n-bar()\n+baz()\n", "package foo\nfunc f() { bar() }\n", "package foo\nfunc f() { baz() }\n"},
	// ---- C11: imports ------------------------------------------------------------------------------------
	{"C03 C05 C11", "added-import-leaves-other-declarations-alone", "@@\n@@\n+import \"fmt\"\n\n-func hello() {\n-  println(\"hi\")\n-}\n+func hello() {\n+  fmt.Println(\"hi\")\n+}\n", "package a\n\nvar before = 1\n\nfunc hello() {\n\tprintln(\"hi\")\n}\n\nfunc other() {}\n", "package a\n\nimport \"fmt\"\n\nvar before = 1\n\nfunc hello() { fmt.Println(\"hi\") }\n\nfunc other() {}\n"},
	{"C11", "matched-import-still-used-in-a-chain-is-kept", "@@\n@@\n import \"x/cfg\"\n\n-cfg.Load()\n+load()\n", "package a\nimport \"x/cfg\"\nfunc f() { cfg.Load(); _ = cfg.Defaults.Timeout }\n", "package a\nimport \"x/cfg\"\nfunc f() { load(); _ = cfg.Defaults.Timeout }\n"},
}

func TestGvcReplay(t *testing.T) {
	var in struct {
		Property string `json:"property"`
	}
	_ = json.Unmarshal([]byte(os.Getenv("GVC_REPLAY_INPUT")), &in)
	found := 0
	for _, c := range gvcCases {
		if in.Property != "" && !strings.Contains(c.props, in.Property) && !(in.Property == "C05" || in.Property == "C03" || in.Property == "C14" || in.Property == "C13") {
			continue
		}
		type res struct {
			out []byte
			err error
			pan string
		}
		done := make(chan res, 1)
		go func() {
			var r res
			defer func() {
				if p := recover(); p != nil {
					r.pan = fmt.Sprint(p)
				}
				done <- r
			}()
			f, err := patch.Parse("case.patch", []byte(c.patch))
			if err != nil {
				r.err = err
				return
			}
			r.out, r.err = f.Apply("a.go", []byte(c.src))
		}()
		var r res
		select {
		case r = <-done:
		case <-time.After(5 * time.Second):
			found++
			fmt.Printf("GVC-REPLAY-VIOLATION: case %q: patch.Parse/Apply did not return within 5s (patch %q on %q)\n", c.name, c.patch, c.src)
			continue
		}
		want := c.want
		if want == "" {
			want = c.src
		}
		switch {
		case r.pan != "":
			found++
			fmt.Printf("GVC-REPLAY-VIOLATION: case %q: panic %s (patch %q on %q)\n", c.name, r.pan, c.patch, c.src)
		case r.err != nil:
			found++
			fmt.Printf("GVC-REPLAY-VIOLATION: case %q: unexpected error %v (patch %q on %q)\n", c.name, r.err, c.patch, c.src)
		case gvcNorm(string(r.out)) != gvcNorm(want):
			found++
			fmt.Printf("GVC-REPLAY-VIOLATION: case %q [%s]: patch %q on %q gave %q, the property requires %q\n", c.name, c.props, c.patch, c.src, r.out, want)
		}
	}
	if found > 0 {
		t.Fail()
	}
}
