package patch_test

// Replay harness (injected by gvc with `go test -overlay`; never part of the repository).
// Runs the real patch.Parse / File.Apply over a scenario corpus and checks the property-level
// oracle of the library API named by GVC_REPLAY_INPUT.property.

import (
	"bytes"
	"encoding/json"
	"fmt"
	"go/parser"
	"go/token"
	"os"
	"strings"
	"testing"
	"time"

	"github.com/uber-go/gopatch/patch"
)

type gvcAPIScenario struct {
	name, patch, src string
	matches          bool // some change applies
}

var gvcAPIScenarios = []gvcAPIScenario{
	{"expression-metavar-in-identifier-slot", "@@\nvar x expression\n@@\n-foo(x)\n+bar.x()\n", "package a\n\nfunc f() { foo(1 + 2) }\n", true},
	{"expression-metavar-as-selector", "@@\nvar x expression\n@@\n-foo(x)\n+foo.x\n", "package a\n\nfunc f() { foo(g()) }\n", true},
	{"keyed-literal-into-call", "@@\nvar x expression\n@@\n-T{x}\n+foo(x)\n", "package a\n\ntype T struct{ a int }\n\nvar _ = T{a: 1}\n", true},
	{"no-match-noncanonical", "@@\n@@\n-nosuch()\n+other()\n", "package a\n\nfunc  f( ) {  }\n", false},
	{"no-match-crlf", "@@\n@@\n-nosuch()\n+other()\n", "package a\r\n\r\nvar x = 1\r\n", false},
	{"rename", "@@\n@@\n-foo(...)\n+bar(...)\n", "package a\n\nfunc g() { foo(1, 2) }\n", true},
	{"failing-replace-plus-match", "@@\nvar x expression\n@@\n-foo()\n+bar(x)\n\n@@\n@@\n-baz()\n+qux()\n", "package a\n\nfunc g() { foo(); baz() }\n", true},
	{"plus-line-before-minus-line-single-elision", "@@\n@@\n+bar(...)\n-foo(...)\n", "package a\n\nfunc g() { foo(1, 2) }\n", true},
	{"elision-needs-backtracking", "@@\n@@\n-foo(..., 1)\n+bar(..., 1)\n", "package a\n\nfunc g() { foo(1, 2, 1) }\n", true},
	{"same-path-imported-twice", "@@\n@@\n import \"x/y\"\n\n-y.Foo()\n+y.Bar()\n", "package a\n\nimport (\n\ta \"x/y\"\n\t\"x/y\"\n)\n\nfunc g() { y.Foo(); a.Foo() }\n", true},
	{"added-import-and-top-level-decl", "@@\n@@\n+import \"fmt\"\n\n-func hello() {\n-  println(\"hi\")\n-}\n+func hello() {\n+  fmt.Println(\"hi\")\n+}\n", "package a\n\nvar before = 1\n\nfunc hello() {\n\tprintln(\"hi\")\n}\n\nfunc other() {}\n", true},
	{"elision-across-list-kinds", "@@\n@@\n-foo(...)\n+bar(func(...) {})\n", "package a\n\nfunc g() { foo(1, 2) }\n", true},
	{"array-length-elision-on-plus-line", "@@\nvar x expression\n@@\n-foo(x)\n+[...]int{x}\n", "package a\n\nvar _ = foo(1)\n", true},
	{"line-directive-in-target", "@@\n@@\n bar()\n-foo()\n-foo()\n", "package x\n\n//line gen.y:1000\nfunc f() {\n\tbar()\n\tfoo()\n\tfoo()\n\tbaz()\n}\n", true},
	{"identifier-metavariable-against-an-absent-label", "@@\nvar x identifier\n@@\n-break x\n+foo(x)\n", "package x\n\nfunc f() {\n\tfor {\n\t\tbreak\n\t}\n}\n", false},
	{"expression-metavariable-against-an-absent-bound", "@@\nvar s, x expression\n@@\n-s[1:x]\n+f(x)\n", "package x\n\nvar _ = t[1:]\n", false},
	{"elision-of-a-whole-assignment-side", "@@\n@@\n-x, ... = foo()\n+... = foo()\n", "package x\n\nfunc f() {\n\tx = foo()\n}\n", true},
	{"elision-where-none-is-supported-on-a-plus-line", "@@\n@@\n-foo(x)\n+if ... { foo(x) }\n", "package x\n\nfunc f() {\n\tfoo(x)\n}\n", true},
	{"comment-group-emptied-by-one-change-then-an-import-added-by-the-next", "@@\nvar x, y expression\n@@\n-foo(x, y)\n+y\n\n@@\n@@\n+import \"fmt\"\n\n-2\n+fmt.Println()\n", "package a\n\nfunc f() {\n\tfoo(1, // c\n\t\t2)\n}\n", true},
	{"comments-of-a-function-between-two-rewritten-calls", "@@\nvar a, b expression\n@@\n-x := foo(a, b)\n+x := foo(a, b...)\n", "package a\n\nfunc first() {\n\tx := foo(1, xs)\n\t_ = x\n}\n\n// Doc of middle.\nfunc middle() {\n\t// inside middle\n\tbar() // trailing in middle\n}\n\nfunc last() {\n\tx := foo(2, ys)\n\t_ = x\n}\n", true},
	{"second-change-visits-a-comment-group-emptied-by-the-first", "@@\n@@\n-one()\n+uno()\n\n@@\n@@\n-foo()\n+x.y\n\n@@\n@@\n-baz()\n+qux()\n", "package a\n\nfunc f() {\n\tvar x = one() // c\n\tfoo()\n\tbaz()\n}\n", true},
	{"untouched-declaration-behind-two-import-declarations-one-replaced", "@@\n@@\n-import \"old/pkg\"\n+import \"new/pkg\"\n\n-pkg.Do()\n+pkg.Do2()\n", "package a\n\nimport \"context\"\n\nimport \"old/pkg\"\n\nvar cfg = []int{\n\t1, // one\n\t// two is the default\n\t2,\n}\n\nfunc f(ctx context.Context) { pkg.Do() }\n", true},
	{"elision-both-sides", "@@\n@@\n func f() {\n   ...\n-  foo()\n+  bar()\n+  baz()\n   ...\n }\n", "package a\n\nfunc f() {\n\ta()\n\tfoo()\n\tb()\n\tc()\n}\n", true},
}

// gvcNested: a change 26 `if` blocks deep (a 1 KB file): "promptly" (C08) means well under the 5 s limit
// of this harness; the time doubled with every level before the comparison results were memoised.
func gvcNested(depth int) string {
	var sb strings.Builder
	sb.WriteString("package a\n\nfunc f() {\n")
	for i := 0; i < depth; i++ {
		sb.WriteString(strings.Repeat("\t", i+1) + "if x {\n")
	}
	sb.WriteString(strings.Repeat("\t", depth+1) + "foo()\n")
	for i := depth - 1; i >= 0; i-- {
		sb.WriteString(strings.Repeat("\t", i+1) + "}\n")
	}
	sb.WriteString("}\n")
	return sb.String()
}

func init() {
	gvcAPIScenarios = append(gvcAPIScenarios, gvcAPIScenario{"change-nested-26-blocks-deep", "@@\n@@\n-foo()\n+bar()\n", gvcNested(26), true})
}

func TestGvcReplay(t *testing.T) {
	var in struct {
		Property   string `json:"property"`
		Obligation string `json:"obligation"`
	}
	_ = json.Unmarshal([]byte(os.Getenv("GVC_REPLAY_INPUT")), &in)
	found := 0
	report := func(sc gvcAPIScenario, msg string) {
		found++
		fmt.Printf("GVC-REPLAY-VIOLATION: scenario %q (patch %q on %q): %s\n", sc.name, sc.patch, sc.src, msg)
	}
	for _, sc := range gvcAPIScenarios {
		type res struct {
			out []byte
			err error
			pan string
		}
		done := make(chan res, 1)
		go func() {
			var r res
			defer func() {
				if p := recover(); p != nil {
					r.pan = fmt.Sprint(p)
				}
				done <- r
			}()
			f, err := patch.Parse("replay.patch", []byte(sc.patch))
			if err != nil {
				r.err = err
				return
			}
			r.out, r.err = f.Apply("a.go", []byte(sc.src))
		}()
		var r res
		select {
		case r = <-done:
		case <-time.After(5 * time.Second):
			report(sc, "patch.Parse/Apply did not return within 5s")
			continue
		}
		if r.pan != "" {
			// every property assumes the API returns: a panic is a violation of C08 and of whatever was being decided
			report(sc, "panic: "+r.pan)
			continue
		}
		switch in.Property {
		case "C07":
			if r.err == nil && !bytes.Equal(r.out, []byte(sc.src)) {
				if _, err := parser.ParseFile(token.NewFileSet(), "a.go", r.out, parser.AllErrors); err != nil {
					report(sc, fmt.Sprintf("Apply returned nil error and text that does not parse: %q", r.out))
				}
			}
		case "C06":
			if !sc.matches && (r.err != nil || !bytes.Equal(r.out, []byte(sc.src))) {
				report(sc, fmt.Sprintf("no change applies but Apply returned (%q, %v) instead of the input bytes", r.out, r.err))
			}
		case "C04":
			if strings.Contains(in.Obligation, "error-dropped") && sc.name == "plus-line-before-minus-line-single-elision" && r.err == nil && !bytes.Contains(r.out, []byte("bar(1, 2)")) {
				report(sc, fmt.Sprintf("the only elision on each side did not reproduce the elided arguments: Apply returned %q without error", r.out))
			}
		case "C04x":
		}
		if in.Property == "C04" && strings.Contains(in.Obligation, "some-choice-of-runs") && sc.name == "elision-needs-backtracking" && r.err == nil && !bytes.Contains(r.out, []byte("bar(1, 2, 1)")) {
			report(sc, fmt.Sprintf("some choice of runs makes the pattern match (`...` = `1, 2`) but the call was not rewritten: Apply returned %q", r.out))
		}
		if in.Property == "C10" && strings.Contains(in.Obligation, "any-unnamed-import") && sc.name == "same-path-imported-twice" && r.err == nil && !bytes.Contains(r.out, []byte("y.Bar()")) {
			report(sc, fmt.Sprintf("the file imports the path in the stated (unnamed) form but the change was not applied: Apply returned %q", r.out))
		}
		if strings.Contains(in.Obligation, "the-slot-written-is-the-slot-that-matched") && sc.name == "added-import-and-top-level-decl" && r.err == nil &&
			(!bytes.Contains(r.out, []byte("var before = 1")) || bytes.Contains(r.out, []byte("println(\"hi\")")) || bytes.Count(r.out, []byte("func hello()")) != 1) {
			report(sc, fmt.Sprintf("the change adds an import and rewrites func hello; the rewritten declaration was written over another declaration: Apply returned %q", r.out))
		}
		if in.Property == "C17" && sc.name == "untouched-declaration-behind-two-import-declarations-one-replaced" && r.err == nil {
			for _, c := range []string{"// one", "// two is the default"} {
				if bytes.Count(r.out, []byte(c)) != 1 {
					report(sc, fmt.Sprintf("comment %q inside the untouched declaration `var cfg` occurs %d times in the output (want 1): %q", c, bytes.Count(r.out, []byte(c)), r.out))
				}
			}
		}
		if (in.Property == "C17" || in.Property == "C05") && sc.name == "comments-of-a-function-between-two-rewritten-calls" && r.err == nil {
			for _, c := range []string{"// Doc of middle.", "// inside middle", "// trailing in middle"} {
				if bytes.Count(r.out, []byte(c)) != 1 {
					report(sc, fmt.Sprintf("comment %q of the untouched function between the two rewritten calls occurs %d times in the output (want 1): %q", c, bytes.Count(r.out, []byte(c)), r.out))
				}
			}
		}
		switch in.Property {
		case "C09", "C16":
			if sc.name == "failing-replace-plus-match" && (r.err == nil || r.out != nil) {
				report(sc, fmt.Sprintf("a change failed to apply but Apply returned (%q, %v)", r.out, r.err))
			}
		}
	}
	if found > 0 {
		t.Fail()
	}
}
